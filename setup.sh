#!/bin/sh
# Offline setup: validates the trusted SSE/SSE2 intrinsic model against the real instructions of
# this CPU (differential execution; assumption A2) and checks the tools the checks need.
set -e
cd "$(dirname "$0")"
export CARGO_NET_OFFLINE=true
for t in cargo cargo-kani cbmc cvc5 python3; do
  command -v $t >/dev/null || { echo "missing tool: $t"; exit 1; }
done
(cd model/validate && cargo build --offline --release >/dev/null 2>&1 && ./target/release/validate_sse | tee ../validate_sse.last)
python3 lib/manifest.py >/dev/null
echo "setup ok"
