"""Mechanical weaving of contract attributes into a scratch copy of /repo.

The scratch copy is the crate that runs, plus
  * `#[cfg_attr(kani, kani::requires/ensures/modifies(..))]` attribute lines inserted directly above
    the `fn` line of each contracted function,
  * one `use crate::__verif;` line per touched file (guarded by cfg(any(kani, glam_verif_replay))),
  * one added module `src/__verif.rs` (spec vocabulary + `kani::Arbitrary` impls), declared at the
    end of lib.rs under the same guard.
Nothing is removed or rewritten; `diff_summary()` re-derives this claim from a real diff on every run.
A function that cannot be located raises LostAnchor (exit 2 upstream, never a violation).
"""
import os, re, shutil, subprocess, difflib

REPO = os.environ.get("VERIF_REPO", "/repo")
VERIF = os.path.dirname(os.path.dirname(os.path.abspath(__file__)))

GUARD = '#[cfg(any(kani, glam_verif_replay))]'


class LostAnchor(Exception):
    pass


class Contract:
    """One function under contract.

    path    logical path used in harnesses, e.g. `glam::Vec4::floor` or
            `<glam::Vec4 as core::ops::Add<glam::Vec4>>::add`
    file    source file relative to the repo root (already resolved for the configuration)
    impl    exact text of the impl header line without the trailing ` {`, or None for a free fn
    fn      function name
    requires / ensures / modifies   lists of Rust expression texts (closure for ensures)
    """

    def __init__(self, path, file, impl, fn, ensures=(), requires=(), modifies=(), props=(), note=""):
        self.path, self.file, self.impl, self.fn = path, file, impl, fn
        self.ensures = [ensures] if isinstance(ensures, str) else list(ensures)
        self.requires = [requires] if isinstance(requires, str) else list(requires)
        self.modifies = [modifies] if isinstance(modifies, str) else list(modifies)
        self.props, self.note = list(props), note
        self.woven = True  # False: contract text is only asserted in lemma form at the call site
        self.line = None  # filled by weave

    def key(self):
        return (self.file, self.impl, self.fn)


def copy_repo(dst):
    """Copy the current working tree of /repo (not a git checkout) without build output."""
    if os.path.exists(dst):
        shutil.rmtree(dst)
    os.makedirs(dst)
    for name in ("src", "Cargo.toml", "Cargo.lock"):
        s = os.path.join(REPO, name)
        d = os.path.join(dst, name)
        if os.path.isdir(s):
            shutil.copytree(s, d)
        else:
            shutil.copy2(s, d)
    # dev-dependencies / benches are not needed by a path dependency; drop the bench/test targets
    # from the manifest copy so cargo does not look for the missing files.
    p = os.path.join(dst, "Cargo.toml")
    txt = open(p).read()
    out, skip = [], False
    for l in txt.splitlines(keepends=True):
        if l.startswith("["):
            skip = l.startswith("[[bench]]") or l.startswith("[[test]]")
        if not skip:
            out.append(l)
    open(p, "w").write("".join(out))
    return dst


def _find_block_end(lines, start):
    """Index of the line that closes the brace opened on/after lines[start] (brace counting that
    skips line comments, block comments, strings and char literals)."""
    depth = 0
    seen = False
    in_block = False
    for i in range(start, len(lines)):
        s = lines[i]
        j = 0
        n = len(s)
        while j < n:
            c = s[j]
            if in_block:
                if s.startswith("*/", j):
                    in_block = False
                    j += 2
                    continue
                j += 1
                continue
            if s.startswith("//", j):
                break
            if s.startswith("/*", j):
                in_block = True
                j += 2
                continue
            if c == '"':
                j += 1
                while j < n and s[j] != '"':
                    if s[j] == "\\":
                        j += 1
                    j += 1
                j += 1
                continue
            if c == "'":
                # char literal or lifetime
                mm = re.match(r"'(\\.|[^\\'])'", s[j:])
                if mm:
                    j += mm.end()
                    continue
                j += 1
                continue
            if c == "{":
                depth += 1
                seen = True
            elif c == "}":
                depth -= 1
                if seen and depth == 0:
                    return i
            j += 1
    raise LostAnchor("unbalanced braces from line %d" % (start + 1))


def locate(lines, impl, fn):
    """Return the index of the `fn` line of function `fn` inside `impl` (or at top level)."""
    if impl is None:
        lo, hi = 0, len(lines)
        depth_pat = re.compile(r"^(pub(\([a-z]+\))? )?(const )?(unsafe )?fn %s\b" % re.escape(fn))
        hits = [i for i in range(lo, hi) if depth_pat.match(lines[i])]
    else:
        starts = [i for i, l in enumerate(lines) if l.rstrip() == impl + " {"]
        if len(starts) != 1:
            raise LostAnchor("impl header %r found %d times" % (impl, len(starts)))
        lo = starts[0]
        hi = _find_block_end(lines, lo)
        pat = re.compile(r"^    (pub(\([a-z]+\))? )?(const )?(unsafe )?fn %s\b" % re.escape(fn))
        hits = [i for i in range(lo, hi) if pat.match(lines[i])]
    if len(hits) != 1:
        raise LostAnchor("fn %s in %r found %d times" % (fn, impl, len(hits)))
    return hits[0]


def fn_text(lines, idx):
    end = _find_block_end(lines, idx)
    return "".join(lines[idx:end + 1])


def weave(dst, contracts, verif_mod_src, extra_mod_text=""):
    """Insert the attribute lines. Returns a manifest (list of dicts)."""
    byfile = {}
    seen = set()
    for c in contracts:
        if not c.woven:
            continue
        if c.key() in seen:
            raise RuntimeError("duplicate contract for %r" % (c.key(),))
        seen.add(c.key())
        byfile.setdefault(c.file, []).append(c)
    manifest = []
    for rel, cs in byfile.items():
        p = os.path.join(dst, rel)
        if not os.path.exists(p):
            raise LostAnchor("file %s missing" % rel)
        lines = open(p).read().splitlines(keepends=True)
        inserts = []
        for c in cs:
            idx = locate(lines, c.impl, c.fn)
            indent = re.match(r"\s*", lines[idx]).group(0)
            attrs = []
            for r in c.requires:
                attrs.append("%s#[cfg_attr(kani, kani::requires(%s))]\n" % (indent, r))
            for m in c.modifies:
                attrs.append("%s#[cfg_attr(kani, kani::modifies(%s))]\n" % (indent, m))
            for e in c.ensures:
                attrs.append("%s#[cfg_attr(kani, kani::ensures(%s))]\n" % (indent, e))
            inserts.append((idx, attrs, c))
        for idx, attrs, c in sorted(inserts, key=lambda t: -t[0]):
            c.source = fn_text(lines, idx)
            lines[idx:idx] = attrs
            manifest.append({"file": rel, "impl": c.impl, "fn": c.fn, "path": c.path,
                             "attrs": [a.strip() for a in attrs]})
        # `use` line after the last leading `use`/comment header: put it at the very top after
        # inner attributes/doc comments (//! or #![..]) so it is valid Rust.
        k = 0
        while k < len(lines) and (lines[k].startswith("//!") or lines[k].startswith("#![") or lines[k].strip() == ""
                                  or lines[k].startswith("//")):
            k += 1
        lines[k:k] = ["%s\n" % GUARD, "#[allow(unused_imports)]\n", "use crate::__verif;\n"]
        open(p, "w").write("".join(lines))
    # the added module
    shutil.copy2(verif_mod_src, os.path.join(dst, "src", "__verif.rs"))
    if extra_mod_text:
        with open(os.path.join(dst, "src", "__verif.rs"), "a") as f:
            f.write("\n" + extra_mod_text)
    with open(os.path.join(dst, "src", "lib.rs"), "a") as f:
        f.write("\n%s\n#[allow(missing_docs)]\n#[doc(hidden)]\npub mod __verif;\n" % GUARD)
    return manifest


def diff_summary(dst):
    """Re-derive 'extraction drops nothing' from an actual diff of the scratch copy against /repo."""
    added = removed = 0
    files = 0
    bad = []
    for root, _, names in os.walk(os.path.join(dst, "src")):
        for n in names:
            p = os.path.join(root, n)
            rel = os.path.relpath(p, dst)
            orig = os.path.join(REPO, rel)
            if not os.path.exists(orig):
                if rel != "src/__verif.rs":
                    bad.append("extra file " + rel)
                continue
            a = open(orig).read().splitlines()
            b = open(p).read().splitlines()
            if a == b:
                continue
            files += 1
            for l in difflib.ndiff(a, b):
                if l.startswith("+ "):
                    added += 1
                    t = l[2:].strip()
                    if not (t.startswith("#[cfg_attr(kani, kani::") or t.startswith("#[cfg(any(kani")
                            or t in ("use crate::__verif;", "#[allow(unused_imports)]", "pub mod __verif;",
                                     "#[allow(missing_docs)]", "#[doc(hidden)]", "")):
                        bad.append("%s: unexpected added line %r" % (rel, t))
                elif l.startswith("- "):
                    removed += 1
                    bad.append("%s: removed line %r" % (rel, l[2:]))
    return {"files_touched": files, "lines_added": added, "lines_removed": removed, "unexpected": bad,
            "added_module": "src/__verif.rs"}
