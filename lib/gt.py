"""glam type table shared by the property modules."""

SIMD_F32 = ("Vec3A", "Vec4", "Quat", "Mat2", "Mat3A", "Mat4")


class VT:
    def __init__(self, name, n, t, mod, fname, mask, simd=False):
        self.name, self.n, self.t, self.mod, self.fname, self.mask, self.simd = name, n, t, mod, fname, mask, simd
        self.w = {"f32": 32, "f64": 64}.get(t)
        self.lname = name.lower()

    def file(self, backend):
        if self.simd:
            return "src/%s/%s/%s.rs" % (self.mod, backend, self.fname)
        return "src/%s/%s.rs" % (self.mod, self.fname)

    @property
    def is_float(self):
        return self.t in ("f32", "f64")


FLOAT_VECS = [
    VT("Vec2", 2, "f32", "f32", "vec2", "BVec2"),
    VT("Vec3", 3, "f32", "f32", "vec3", "BVec3"),
    VT("Vec3A", 3, "f32", "f32", "vec3a", "BVec3A", simd=True),
    VT("Vec4", 4, "f32", "f32", "vec4", "BVec4A", simd=True),
    VT("DVec2", 2, "f64", "f64", "dvec2", "BVec2"),
    VT("DVec3", 3, "f64", "f64", "dvec3", "BVec3"),
    VT("DVec4", 4, "f64", "f64", "dvec4", "BVec4"),
]

INT_PREFIX = [("i8", "I8"), ("u8", "U8"), ("i16", "I16"), ("u16", "U16"), ("i32", "I"), ("u32", "U"),
              ("i64", "I64"), ("u64", "U64"), ("usize", "USize")]
INT_VECS = []
for (t, p) in INT_PREFIX:
    for n in (2, 3, 4):
        name = "%sVec%d" % (p, n)
        INT_VECS.append(VT(name, n, t, t, name.lower(), "BVec%d" % n))

ALL_VECS = FLOAT_VECS + INT_VECS
BY_NAME = {v.name: v for v in ALL_VECS}

XYZW = "xyzw"


class MT:
    """matrix / affine type: C columns of R rows, column vector type `col`."""

    def __init__(self, name, C, R, t, mod, fname, col, simd=False, affine=False, lin=None):
        self.name, self.C, self.R, self.t, self.mod, self.fname, self.col = name, C, R, t, mod, fname, col
        self.simd, self.affine, self.lin = simd, affine, lin
        self.w = {"f32": 32, "f64": 64}[t]
        self.lname = name.lower()
        self.N = C * R

    def file(self, backend):
        if self.simd:
            return "src/%s/%s/%s.rs" % (self.mod, backend, self.fname)
        return "src/%s/%s.rs" % (self.mod, self.fname)


MATS = [
    MT("Mat2", 2, 2, "f32", "f32", "mat2", "Vec2", simd=True),
    MT("Mat3", 3, 3, "f32", "f32", "mat3", "Vec3"),
    MT("Mat3A", 3, 3, "f32", "f32", "mat3a", "Vec3A", simd=True),
    MT("Mat4", 4, 4, "f32", "f32", "mat4", "Vec4", simd=True),
    MT("DMat2", 2, 2, "f64", "f64", "dmat2", "DVec2"),
    MT("DMat3", 3, 3, "f64", "f64", "dmat3", "DVec3"),
    MT("DMat4", 4, 4, "f64", "f64", "dmat4", "DVec4"),
]
AFFINES = [
    MT("Affine2", 3, 2, "f32", "f32", "affine2", "Vec2", affine=True, lin="Mat2"),
    MT("Affine3A", 4, 3, "f32", "f32", "affine3a", "Vec3A", affine=True, lin="Mat3A"),
    MT("DAffine2", 3, 2, "f64", "f64", "daffine2", "DVec2", affine=True, lin="DMat2"),
    MT("DAffine3", 4, 3, "f64", "f64", "daffine3", "DVec3", affine=True, lin="DMat3"),
]
MAT_BY_NAME = {m.name: m for m in MATS + AFFINES}
