// Harness-side support shared by the Kani build and the replay build.
//  * under `cfg(kani)`: `any` = `kani::any`, `assume` = `kani::assume`, `check` = `assert!`.
//  * otherwise (replay against the real code, real intrinsics, real std/libm): `any` pops the
//    next value from the byte vectors printed by Kani's concrete playback.
#![allow(dead_code)]

#[cfg(not(kani))]
pub mod feed {
    use std::cell::RefCell;
    thread_local! {
        pub static BYTES: RefCell<(Vec<Vec<u8>>, usize)> = RefCell::new((Vec::new(), 0));
        pub static FAILS: RefCell<Vec<String>> = RefCell::new(Vec::new());
        pub static ASSUME_BROKEN: RefCell<bool> = RefCell::new(false);
        pub static LOG: RefCell<Vec<String>> = RefCell::new(Vec::new());
    }
    pub fn load(v: Vec<Vec<u8>>) {
        BYTES.with(|b| *b.borrow_mut() = (v, 0));
    }
    thread_local! {
        /// generator mode (bounded concrete search on the real code): xorshift state, 0 = off
        pub static GEN: RefCell<u64> = RefCell::new(0);
    }
    pub fn reset(seed: u64) {
        GEN.with(|g| *g.borrow_mut() = seed | 1);
        FAILS.with(|f| f.borrow_mut().clear());
        LOG.with(|f| f.borrow_mut().clear());
        ASSUME_BROKEN.with(|a| *a.borrow_mut() = false);
    }
    fn rnd() -> u64 {
        GEN.with(|g| {
            let mut x = *g.borrow();
            x ^= x << 13;
            x ^= x >> 7;
            x ^= x << 17;
            *g.borrow_mut() = x;
            x
        })
    }
    const F32S: [u32; 24] = [0, 0x8000_0000, 0x3f80_0000, 0xbf80_0000, 0x3f00_0000, 0xbf00_0000, 0x7f80_0000, 0xff80_0000,
        0x7fc0_0000, 0xffc0_0001, 0x0000_0001, 0x8000_0001, 0x007f_ffff, 0x0080_0000, 0x7f7f_ffff, 0xff7f_ffff,
        0x4b00_0000, 0x4aff_ffff, 0x4f00_0000, 0xcf00_0000, 0x3fc0_0000, 0x4020_0000, 0xc020_0000, 0x4380_4000];
    const F64S: [u64; 16] = [0, 0x8000_0000_0000_0000, 0x3ff0_0000_0000_0000, 0xbff0_0000_0000_0000, 0x3fe0_0000_0000_0000,
        0xbfe0_0000_0000_0000, 0x7ff0_0000_0000_0000, 0xfff0_0000_0000_0000, 0x7ff8_0000_0000_0000, 1, 0x8000_0000_0000_0001,
        0x0010_0000_0000_0000, 0x7fef_ffff_ffff_ffff, 0x4330_0000_0000_0000, 0x3ff8_0000_0000_0000, 0x4004_0000_0000_0000];
    pub fn next(n: usize) -> Vec<u8> {
        let on = GEN.with(|g| *g.borrow() != 0);
        if on {
            let r = rnd();
            let pick = (r >> 60) as usize; // 0..15
            let v: u64 = match n {
                4 => {
                    if pick < 8 { F32S[(r as usize >> 8) % 24] as u64 }
                    else if pick < 11 { ((((r >> 8) as i64 % 17 - 8) as i32) as f32).to_bits() as u64 }
                    else if pick < 13 { ((((r >> 8) % 65) as f32 - 32.0) * 0.5).to_bits() as u64 }
                    else { (r >> 8) & 0xffff_ffff }
                }
                8 => {
                    if pick < 8 { F64S[(r as usize >> 8) % 16] }
                    else if pick < 11 { (((r >> 8) as i64 % 17 - 8) as f64).to_bits() }
                    else if pick < 13 { ((((r >> 8) % 65) as f64 - 32.0) * 0.5).to_bits() }
                    else { rnd() }
                }
                _ => {
                    if pick < 4 { 0 } else if pick < 6 { u64::MAX } else if pick < 8 { 1 } else if pick < 9 { 1u64 << (8 * n as u64 - 1) }
                    else if pick < 10 { (1u64 << (8 * n as u64 - 1)) - 1 } else { r >> 4 }
                }
            };
            return v.to_le_bytes()[..n.min(8)].to_vec();
        }
        BYTES.with(|b| {
            let mut b = b.borrow_mut();
            let i = b.1;
            b.1 += 1;
            let mut v = b.0.get(i).cloned().unwrap_or_default();
            v.resize(n, 0);
            v
        })
    }
}

pub trait Any: Sized {
    fn any() -> Self;
}

macro_rules! prim_any {
    ($($t:ty),*) => {$(
        impl Any for $t {
            #[inline(always)]
            fn any() -> Self {
                #[cfg(kani)]
                { kani::any() }
                #[cfg(not(kani))]
                {
                    let b = feed::next(core::mem::size_of::<$t>());
                    let mut a = [0u8; core::mem::size_of::<$t>()];
                    a.copy_from_slice(&b);
                    let v = <$t>::from_le_bytes(a);
                    feed::LOG.with(|l| l.borrow_mut().push(format!("{}:{:?}", stringify!($t), v)));
                    v
                }
            }
        }
    )*};
}
prim_any!(u8, u16, u32, u64, u128, usize, i8, i16, i32, i64, i128, isize);

impl Any for f32 {
    #[inline(always)]
    fn any() -> Self {
        #[cfg(kani)]
        { kani::any() }
        #[cfg(not(kani))]
        {
            let b = feed::next(4);
            let v = f32::from_le_bytes([b[0], b[1], b[2], b[3]]);
            feed::LOG.with(|l| l.borrow_mut().push(format!("f32:{:?}(0x{:08x})", v, v.to_bits())));
            v
        }
    }
}
impl Any for f64 {
    #[inline(always)]
    fn any() -> Self {
        #[cfg(kani)]
        { kani::any() }
        #[cfg(not(kani))]
        {
            let b = feed::next(8);
            let mut a = [0u8; 8];
            a.copy_from_slice(&b);
            let v = f64::from_le_bytes(a);
            feed::LOG.with(|l| l.borrow_mut().push(format!("f64:{:?}(0x{:016x})", v, v.to_bits())));
            v
        }
    }
}
impl Any for bool {
    #[inline(always)]
    fn any() -> Self {
        #[cfg(kani)]
        { kani::any() }
        #[cfg(not(kani))]
        {
            let b = feed::next(1);
            let v = b[0] != 0;
            feed::LOG.with(|l| l.borrow_mut().push(format!("bool:{}", v)));
            v
        }
    }
}
macro_rules! arr_any {
    ($($n:literal: [$($i:tt)*]),*) => {$(
        impl<T: Any> Any for [T; $n] {
            #[inline(always)]
            fn any() -> Self {
                [$({ let _ = $i; T::any() }),*]
            }
        }
    )*};
}
arr_any!(1: [0], 2: [0 1], 3: [0 1 2], 4: [0 1 2 3], 5: [0 1 2 3 4], 6: [0 1 2 3 4 5],
         7: [0 1 2 3 4 5 6], 8: [0 1 2 3 4 5 6 7], 9: [0 1 2 3 4 5 6 7 8],
         10: [0 1 2 3 4 5 6 7 8 9], 11: [0 1 2 3 4 5 6 7 8 9 10],
         12: [0 1 2 3 4 5 6 7 8 9 10 11], 13: [0 1 2 3 4 5 6 7 8 9 10 11 12], 14: [0 1 2 3 4 5 6 7 8 9 10 11 12 13],
         15: [0 1 2 3 4 5 6 7 8 9 10 11 12 13 14], 16: [0 1 2 3 4 5 6 7 8 9 10 11 12 13 14 15],
         20: [0 1 2 3 4 5 6 7 8 9 10 11 12 13 14 15 16 17 18 19]);

#[inline(always)]
pub fn any<T: Any>() -> T {
    T::any()
}

#[inline(always)]
pub fn assume(c: bool) {
    #[cfg(kani)]
    kani::assume(c);
    #[cfg(not(kani))]
    if !c {
        feed::ASSUME_BROKEN.with(|a| *a.borrow_mut() = true);
    }
}

/// One named clause of an obligation.
#[macro_export]
macro_rules! check {
    ($c:expr, $name:expr) => {{
        #[cfg(kani)]
        {
            kani::assert($c, $name);
        }
        #[cfg(not(kani))]
        {
            if !($c) {
                $crate::vk::feed::FAILS.with(|f| f.borrow_mut().push(String::from($name)));
            }
        }
    }};
}

/// Reachability witness: every harness ends with `reach!()`; the runner requires the cover to be
/// SATISFIED, otherwise the obligation is reported vacuous.
#[macro_export]
macro_rules! reach {
    () => {{
        #[cfg(kani)]
        kani::cover!(true, "vk_reach");
    }};
}
