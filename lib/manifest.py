#!/usr/bin/env python3
"""Generates /verif/MANIFEST.json from the table below (run after changing what is claimed)."""
import json, os

VERIF = os.path.dirname(os.path.dirname(os.path.abspath(__file__)))

TB = ("Trusted base: Kani 0.68 MIR->GOTO translation, CBMC 6.11 (IEEE-754 bit-blasting), CaDiCaL, CBMC SMT2 back end + cvc5; "
      "model/sse.rs lane-wise model of the SSE/SSE2 intrinsics Kani cannot translate (validated differentially at setup, not proved). ")

CLAIMS = {
    "C01": dict(
        text="Woven kani::ensures lane contracts on every element-wise method/operator of the seven float vector types, discharged by "
             "proof_for_contract over all operand bit patterns (Vec3A with a symbolic hidden lane) in the sse2 and scalar-math builds; "
             "reference/assign operator forms proved equal to the value forms with the primitive arithmetic uninterpreted.",
        note=TB + "exp/powf/div_euclid/rem_euclid/mul_add: the math shim is an uninterpreted function shared by code and spec (leaf forwarding to std assumed). "
             "Sum/Product bounded (iterator length 3), thorough tier only. NEON/wasm32/core-simd/libm not covered.",
        technique="Kani function contracts (proof_for_contract, stub_verified) on woven real code, CBMC SAT + cvc5", ref="5 C01"),
    "C16": dict(
        text="Every swizzle getter/setter clause, generated from the method names found in the current source, discharged full-domain "
             "(bit-for-bit lanes, frame of untouched lanes, round-trip laws) as bundled call-site obligations; sse2 and scalar builds.",
        note=TB + "Clauses are asserted at the call site (no woven attribute on the ~15000 one-line impl fns). Quick tier: Vec3A/Vec4 getters + all setters; thorough: all types.",
        technique="generated full-domain call-site contracts, Kani/CBMC SAT, two-stage clause naming", ref="5 C16"),
}

ALL = ["C%02d" % i for i in range(1, 21)]
NOT_YET = "not claimed yet: machinery for this property is still being built in this round (see DESIGN.md section 5 for the plan)"


def main():
    checks = []
    for pid in ALL:
        if pid not in CLAIMS:
            continue
        c = CLAIMS[pid]
        checks.append({
            "property_id": pid,
            "quick_cmd": "./check %s --tier quick" % pid,
            "thorough_cmd": "./check %s --tier thorough" % pid,
            "evidence_file": "/verif/evidence/%s.json" % pid,
            "replay_cmd_template": "cat {path}",
            "engine": "kani-contracts",
            "level_claimed": {"category": "proof", "text": c["text"], "design_ref": "DESIGN.md section " + c["ref"]},
            "level_note": c["note"],
            "technique": c["technique"],
        })
    man = {
        "version": 1,
        "setup_cmd": "./setup.sh",
        "hooks": {
            "guard": "cfg(kani)",
            "enable": "no hook is committed to /repo: contract attributes (#[cfg_attr(kani, kani::ensures(..))]) and the spec module are woven "
                      "into a scratch copy of the current working tree on every run (lib/weave.py); cfg(kani) is set by cargo kani itself",
            "baseline_off_cmd": "cd /repo && cargo test --workspace --no-fail-fast --offline",
            "source_commits": [],
            "add_only": True,
        },
        "engines": [{"name": "kani-contracts", "path": "/verif/check", "serves_properties": sorted(CLAIMS),
                     "kind_free_text": "contract-based deductive verification: Kani 0.68 function contracts woven onto the real glam functions, CBMC/cvc5 back ends"}],
        "checks": checks,
        "not_applicable": [{"property_id": p, "reason": NOT_YET} for p in ALL if p not in CLAIMS],
        "notes": "exit 0 = every obligation discharged; exit 1 + VIOLATION line = an obligation refuted (replay file holds the counterexample run on the real code); "
                 "exit 2 = undecided (timeout / unsupported construct / lost anchor / vacuity / canary verified), never an alarm.",
    }
    json.dump(man, open(os.path.join(VERIF, "MANIFEST.json"), "w"), indent=1)
    print("wrote MANIFEST.json with", len(checks), "checks")


if __name__ == "__main__":
    main()
