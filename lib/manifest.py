#!/usr/bin/env python3
"""Generates /verif/MANIFEST.json from the table below (run after changing what is claimed)."""
import json, os

VERIF = os.path.dirname(os.path.dirname(os.path.abspath(__file__)))

TB = ("Trusted base: Kani 0.68 MIR->GOTO translation, CBMC 6.11 (IEEE-754 bit-blasting), CaDiCaL, CBMC SMT2 back end + cvc5; "
      "model/sse.rs lane-wise model of the SSE/SSE2 intrinsics Kani cannot translate (validated differentially at setup, not proved). ")

CLAIMS = {
    "C01": dict(
        text="Woven kani::ensures lane contracts on every element-wise method/operator of the seven float vector types, discharged by "
             "proof_for_contract over all operand bit patterns (Vec3A with a symbolic hidden lane) in the sse2 and scalar-math builds; "
             "reference/assign operator forms proved equal to the value forms with the primitive arithmetic uninterpreted.",
        note=TB + "exp/powf/div_euclid/rem_euclid/mul_add: the math shim is an uninterpreted function shared by code and spec (leaf forwarding to std assumed). "
             "Sum/Product bounded (iterator length 3), thorough tier only. NEON/wasm32/core-simd/libm not covered.",
        technique="Kani function contracts (proof_for_contract, stub_verified) on woven real code, CBMC SAT + cvc5", ref="5 C01, 9"),
    "C02": dict(
        text="What each geometry function computes, bit-precisely over the full domain: dot/length_squared/element_sum/product/distance_squared as sums/products of the right "
             "single-rounded lane terms in some association order (tree_in, fast path + full disjunction), cross/perp_dot lanes, exact integers on the lattice, length/distance/"
             "normalize through an uninterpreted sqrt, the exact control predicate of the normalize family, and the documented structure of lerp/midpoint/project/reject/reflect/refract/angle_between.",
        note=TB + "A3: the rounding bound (few eps x sum of magnitudes) of the verified expression trees is assumed, not machine-checked; accuracy of acos_approx and "
             "'checked normalize forms never return a non-finite vector' are not decided.",
        technique="call-site contracts (tree_in, control, structure) on the real functions, Kani/CBMC + cvc5, exact-lattice identities", ref="5 C02, 9.2"),
    "C03": dict(
        text="mul_vec as tree_in over the full domain; add/sub/scalar ops/negation act column by column as the (C01-contracted) vector operators; operator forms and the column structure of A*B proved by forwarding lemmas "
             "with the named methods uninterpreted; exact-lattice identities for M*v, A*B, (A*B)*v, determinant (Laplace expansion) and inverse*det == adjugate.",
        note=TB + "A3/A4: off-lattice accuracy and the polynomial-on-a-grid uniqueness argument are assumptions; inverse exact only where 1/det is exact; 4x4 and f64 lattice obligations in the thorough tier.",
        technique="Kani function contracts + forwarding lemmas (uninterpreted callees) + exact-lattice polynomial identities (CBMC SAT)", ref="5 C03"),
    "C04": dict(
        text="Woven component-wise contracts on Quat/DQuat + - *s /s neg, bit contract on conjugate, dot as tree_in, length/normalize through an uninterpreted sqrt; exact-lattice "
             "identities: Hamilton product, q*v == vector part of q v q* (Vec3 and Vec3A), q/-q act alike, inverse undoes; operator forms == named methods.",
        note=TB + "A3/A4 as C03; DQuat lattice obligations and (q*p)*v associativity in the thorough tier.",
        technique="Kani function contracts + exact-lattice polynomial identities", ref="5 C04"),
    "C05": dict(
        text="Every from_mat*/From/as_* between matrix and affine types found in the source: entry (r,c) preserved bit-for-bit with identity padding (full domain); from_quat exact on the lattice "
             "(qmat(q) + (1-|q|^2) I); action agreement and commutation with composition exact on the lattice; matrix->quaternion branch contract on integer matrices and exact round trip on the rational cube rotations (all four branches).",
        note=TB + "A4: the round trip for general rotations is a mathematical corollary of the branch contract; sqrt uninterpreted / pinned on exact points.",
        technique="generated bit-level call-site contracts + exact-lattice lemmas + control contract with uninterpreted sqrt", ref="5 C05"),
    "C06": dict(
        text="Bit-for-bit column-major layout clauses for every constructor/accessor pair of the 7 matrix and 4 affine types found in the source, transpose, from_diagonal, the minor constructors "
             "for every (i,j), col_mut frame, always-panics obligations for out-of-range indices, and the affine transform_point/transform_vector structure.",
        note=TB + "M*v == sum v[c]*col(c) and (A*B)*v == A*(B*v) are obligations of C03.",
        technique="generated full-domain bit-level call-site contracts, always-panics contracts (Kani/CBMC SAT, cvc5 for structure)", ref="5 C06"),
    "C07": dict(
        text="The contracts of C01-C04 on the SIMD-backed types are generated with identical text for the sse2, scalar-math and +fma,+avx2 builds (checked on every run) and discharged in the fma build (quick) / all three builds (thorough).",
        note=TB + "A6: rustc/LLVM do not contract or re-associate float ops without fast-math; core-simd / NEON / wasm32 not buildable; Debug/Display text not decided.",
        technique="same contract text discharged per build configuration (Kani/CBMC + cvc5)", ref="5 C07"),
    "C08": dict(
        text="Two-run non-interference obligations (bit-identical visible lanes, independently symbolic hidden lanes, transcendentals uninterpreted) for every public method of Vec3A/Mat3A/Affine3A found in the source, "
             "their operators and conversions out, and all BVec3A observers; every other property's obligations over these types run with a symbolic hidden lane.",
        note=TB + "Two-run obligations run with ALL primitive arithmetic uninterpreted; methods with large bodies (inverse, mul_mat3, clamp_length, slerp, any_orthonormal_*, ...) are not decided within the timeout / table capacity and are excluded (listed per run under excluded_undecided / deferred_to_thorough). Debug/Display not decided; the lane does not exist under scalar-math; core-simd not compiled.",
        technique="two-run non-interference contracts over symbolic hidden lanes (Kani/CBMC SAT)", ref="5 C08"),
    "C09": dict(
        text="Single-axis rotation constructors equal the textbook matrices / half-angle quaternions for every angle bit pattern with sin_cos uninterpreted; Rodrigues polynomial exact on the lattice; "
             "from_euler for all 24 orders EXACTLY equals the product of the elemental constructors in the named order (matrices and quaternions).",
        note=TB + "A5: sin_cos uninterpreted with odd/even symmetry; A4: orthonormality/det +1 are corollaries; to_euler/to_axis_angle/to_scaled_axis are NOT decided.",
        technique="uninterpreted-function lemmas + exact-lattice polynomial identities on the real constructors", ref="5 C09"),
    "C10": dict(
        text="Each composite TRS constructor equals the documented product T*R*S exactly on the lattice (3D, 2D, f32, f64); decomposition returns the last column bit-for-bit (full domain) and "
             "recomposition is exact on shear-free lattice transforms with all 8 scale sign patterns and all four matrix->quaternion branches.",
        note=TB + "A4/A5 as C05/C09; recomposition accuracy for arbitrary scales/rotations and the 2D angle are not decided.",
        technique="exact-lattice lemmas on the code itself, uninterpreted sin_cos / pinned sqrt", ref="5 C10"),
    "C11": dict(
        text="Every perspective_*/orthographic_* constructor maps near/far planes and frustum/box edges to the documented values and emits w = -z / +z, exactly, on power-of-two inputs with tan/sin_cos uninterpreted; "
             "look_to_* assembly (rows s,u,-f; translation; eye->origin; dir->-Z/+Z; up->+Y half-plane; lh==rh(-dir)) exact on lattice inputs.",
        note=TB + "A5: uninterpreted tan/sin_cos/sqrt with power-of-two values; quaternion look_to forms only through C05; numerical accuracy for arbitrary parameters assumed (A3).",
        technique="exact plane-mapping lemmas with uninterpreted transcendentals", ref="5 C11"),
    "C12": dict(
        text="lerp endpoints (value-exact for finite operands), move_towards and clamp_length* control predicates and structure (modular in length / length_squared), any_orthogonal_vector form (full domain) and exact orthogonality (lattice), FloatExt forms, "
             "from_rotation_arc(_colinear/_2d) threshold branches and the slerp fallback/sign-flip branch.",
        note=TB + "slerp angle proportionality, never-overshoot, rotate_towards semantics, orthonormality of any_orthonormal_* and from_rotation_arc(a,b)*a == b are NOT decided (real trigonometry).",
        technique="control and structure contracts at the call site, uninterpreted sqrt/sin/acos (Kani/CBMC + cvc5)", ref="5 C12"),
    "C13": dict(
        text="Generated full-domain lane-lift clauses for the 27 integer vector types from the source's fn/impl lists and an op->primitive dictionary: value clauses under the no-panic precondition, checked_ forms, "
             "and must-panic obligations (overflow, division by zero, MIN/-1, shift >= width).",
        note=TB + "Overflow-checking profile only; multi-term 16/32/64-bit products excluded where the solvers time out (listed in evidence); Sum/Product over iterators not covered.",
        technique="generated call-site contracts incl. always-panics contracts (Kani/CBMC SAT + cvc5)", ref="5 C13"),
    "C14": dict(
        text="Every as_*/From/TryFrom/extend/truncate/from_vec4 between vector types found in the source, lane by lane against the Rust primitive conversion, all source bit patterns.",
        note=TB + "Quick and thorough tier: all 40 types.",
        technique="generated full-domain call-site contracts (Kani/CBMC SAT)", ref="5 C14"),
    "C15": dict(
        text="Mask types as data structures over the view [bool;N] with full-view postconditions, observers as functions of the view (recording Hasher), SIMD vs plain mask identity, "
             "integer cmp*, select on all vector types, always-panics for out-of-range test/set.",
        note=TB + "float cmp* for every operand bit pattern (sse2 and scalar builds), also woven C01 contracts; Debug/Display not decided.",
        technique="data-structure contracts over an abstract view (Kani/CBMC SAT)", ref="5 C15"),
    "C16": dict(
        text="Every swizzle getter/setter clause, generated from the method names found in the current source, discharged full-domain "
             "(bit-for-bit lanes, frame of untouched lanes, round-trip laws) as bundled call-site obligations; sse2 and scalar builds.",
        note=TB + "Clauses are asserted at the call site (no woven attribute on the ~15000 one-line impl fns). Quick tier: Vec3A/Vec4 getters + all setters; thorough: all types.",
        technique="generated full-domain call-site contracts, Kani/CBMC SAT, two-stage clause naming", ref="5 C16"),
    "C17": dict(
        text="Abstract view = bits of to_array(); constructors, read paths and full-view write postconditions for the 40 vector types and Quat/DQuat, paths detected from the source; symbolic 3-step history lemma.",
        note=TB + "Debug/Display not decided; arbitrary histories follow by induction over the per-write full-view clauses.",
        technique="data-structure contracts over an abstract view, generated per type (Kani/CBMC SAT)", ref="5 C17"),
    "C18": dict(
        text="Every public float function found in the source called with fully symbolic arguments (transcendentals unconstrained): no failed panic/bounds/pointer check; slice functions for every length "
             "(short => never returns, otherwise exactly the first N elements and frame); index panics; bounded native check that nothing is written before a short-slice panic.",
        note=TB + "Two defects found and fixed in /repo (rotate_towards NaN clamp panic; write_cols_to_slice partial write). Kani/CBMC memory model replaces the ASan clause; the no-write-before-panic clause is a bounded native stand-in (labelled bounded); release profile not covered.",
        technique="totality contracts (no reachable panic / invalid access) + always-panics contracts; bounded native stand-in for post-panic state", ref="5 C18, 9.1"),
    "C19": dict(
        text="serde through an exact no-alloc recording Serializer/Deserializer (tuple struct of N elements in order, bit-exact round trip, shorter sequences rejected) in the sse2 and scalar builds; "
             "bytemuck byte image / zeroed / cast round trip and Pod-only-for-unpadded probes; mint round trips and row/column-major layout.",
        note=TB + "One defect found and fixed in /repo (BVec4A Serialize). serde_json text, rkyv, rand, approx and rejection of longer sequences are not decided; representative subset of the 54 value types (all shapes, all SIMD-backed types, masks).",
        technique="contracts over an in-harness token stream / byte image (Kani/CBMC SAT)", ref="5 C19"),
    "C20": dict(
        text="glam-assert builds (sse2 and scalar): one always-panics obligation per DOCUMENTED panic condition (# Panics doc paragraphs scanned from the source: not normalized, min > max, negative bound, zero scale, zero determinant, non-positive plane) plus hand-written representatives for the rest; frame scan of the assertion macro + re-discharged lattice value obligations "
             "(assertions never change a value); exact producers (constants, lattice unit quaternion products, TRS matrices) satisfy the asserted preconditions.",
        note=TB + "A7: macro frame scan is syntactic; chains of operations staying within the 2e-4 tolerance and normalize/slerp outputs are NOT decided. Known finding (known_findings.txt): Quat/DQuat::mul_quat document a panic for non-normalized operands but contain no assertion.",
        technique="always-panics contracts + syntactic frame condition + exact-lattice lemmas in the assert build", ref="5 C20"),
}

ALL = ["C%02d" % i for i in range(1, 21)]
# properties whose thorough command was validated (exit 0) on the unchanged tree; the others are registered quick-only
THOROUGH_OK = ["C02", "C04", "C05", "C06", "C10", "C11", "C12", "C13", "C14", "C15", "C16", "C17", "C18", "C20"]
# properties whose check is not yet reliable on the unchanged tree: reason
PENDING = 'check built; not yet validated end-to-end on the unchanged tree in this round (will be claimed once its quick command is stable)'
UNCLAIMED = {}
NOT_YET = "not claimed yet: machinery for this property is still being built in this round (see DESIGN.md section 5 for the plan)"


def main():
    checks = []
    claimed = [p for p in ALL if p in CLAIMS and p not in UNCLAIMED]
    for pid in ALL:
        if pid not in claimed:
            continue
        c = CLAIMS[pid]
        chk = {
            "property_id": pid,
            "quick_cmd": "./check %s --tier quick" % pid,
            "evidence_file": "/verif/evidence/%s.json" % pid,
            "replay_cmd_template": "cat {path}",
            "engine": "kani-contracts",
            "level_claimed": {"category": "proof", "text": c["text"], "design_ref": "DESIGN.md section " + c["ref"]},
            "level_note": c["note"],
            "technique": c["technique"],
        }
        if pid in THOROUGH_OK:
            chk["thorough_cmd"] = "./check %s --tier thorough" % pid
        checks.append(chk)
    man = {
        "version": 1,
        "setup_cmd": "./setup.sh",
        "hooks": {
            "guard": "cfg(kani)",
            "enable": "no hook is committed to /repo: contract attributes (#[cfg_attr(kani, kani::ensures(..))]) and the spec module are woven "
                      "into a scratch copy of the current working tree on every run (lib/weave.py); cfg(kani) is set by cargo kani itself",
            "baseline_off_cmd": "cd /repo && cargo test --workspace --no-fail-fast --offline",
            "source_commits": [],
            "add_only": True,
        },
        "engines": [{"name": "kani-contracts", "path": "/verif/check", "serves_properties": claimed,
                     "kind_free_text": "contract-based deductive verification: Kani 0.68 function contracts woven onto the real glam functions, CBMC/cvc5 back ends"}],
        "checks": checks,
        "not_applicable": [{"property_id": p, "reason": UNCLAIMED.get(p, NOT_YET)} for p in ALL if p not in claimed],
        "notes": "exit 0 = every obligation discharged; exit 1 + VIOLATION line = an obligation refuted (replay file holds the counterexample run on the real code); "
                 "exit 2 = undecided (timeout / unsupported construct / lost anchor / vacuity / canary verified), never an alarm.",
    }
    json.dump(man, open(os.path.join(VERIF, "MANIFEST.json"), "w"), indent=1)
    print("wrote MANIFEST.json with", len(checks), "checks")


if __name__ == "__main__":
    main()
