// no-alloc recording serde Serializer and fixed-array Deserializer (C19). Values are carried as
// (kind, bits) pairs so the carrier cannot round.
pub mod ser {
    use serde::ser::{self, Impossible, Serialize};
    use serde::de::{self, DeserializeSeed, Visitor};
    use core::fmt::{self, Display};

    #[derive(Debug)]
    pub struct SErr;
    impl Display for SErr { fn fmt(&self, _f: &mut fmt::Formatter<'_>) -> fmt::Result { Ok(()) } }
    impl ser::StdError for SErr {}
    impl ser::Error for SErr { fn custom<T: Display>(_m: T) -> Self { SErr } }
    impl de::Error for SErr { fn custom<T: Display>(_m: T) -> Self { SErr } }

    pub const CAP: usize = 18;
    #[derive(Clone, Copy)]
    pub struct Rec { pub n: usize, pub kind: [u8; CAP], pub bits: [u64; CAP], pub declared: usize, pub shape: u8, pub name_len: usize }
    impl Rec { pub fn new() -> Self { Rec { n: 0, kind: [0; CAP], bits: [0; CAP], declared: 0, shape: 0, name_len: 0 } }
        fn push(&mut self, k: u8, b: u64) { if self.n < CAP { self.kind[self.n] = k; self.bits[self.n] = b; } self.n += 1; } }

    pub struct S<'a>(pub &'a mut Rec);
    pub struct Compound<'a>(pub &'a mut Rec);
    macro_rules! prim {
        ($($m:ident: $t:ty => $k:literal, $conv:expr);*) => {$(
            fn $m(self, v: $t) -> Result<(), SErr> { let f: fn($t) -> u64 = $conv; self.0.push($k, f(v)); Ok(()) }
        )*};
    }
    impl<'a> ser::Serializer for S<'a> {
        type Ok = (); type Error = SErr;
        type SerializeSeq = Impossible<(), SErr>; type SerializeTuple = Compound<'a>; type SerializeTupleStruct = Compound<'a>;
        type SerializeTupleVariant = Impossible<(), SErr>; type SerializeMap = Impossible<(), SErr>; type SerializeStruct = Impossible<(), SErr>; type SerializeStructVariant = Impossible<(), SErr>;
        prim!(serialize_bool: bool => 1, |v| v as u64; serialize_i8: i8 => 2, |v| v as u8 as u64; serialize_i16: i16 => 3, |v| v as u16 as u64; serialize_i32: i32 => 4, |v| v as u32 as u64;
              serialize_i64: i64 => 5, |v| v as u64; serialize_u8: u8 => 6, |v| v as u64; serialize_u16: u16 => 7, |v| v as u64; serialize_u32: u32 => 8, |v| v as u64; serialize_u64: u64 => 9, |v| v;
              serialize_f32: f32 => 10, |v| v.to_bits() as u64; serialize_f64: f64 => 11, |v| v.to_bits());
        fn serialize_char(self, _v: char) -> Result<(), SErr> { Err(SErr) }
        fn serialize_str(self, _v: &str) -> Result<(), SErr> { Err(SErr) }
        fn serialize_bytes(self, _v: &[u8]) -> Result<(), SErr> { Err(SErr) }
        fn serialize_none(self) -> Result<(), SErr> { Err(SErr) }
        fn serialize_some<T: ?Sized + Serialize>(self, _v: &T) -> Result<(), SErr> { Err(SErr) }
        fn serialize_unit(self) -> Result<(), SErr> { Err(SErr) }
        fn serialize_unit_struct(self, _n: &'static str) -> Result<(), SErr> { Err(SErr) }
        fn serialize_unit_variant(self, _n: &'static str, _i: u32, _v: &'static str) -> Result<(), SErr> { Err(SErr) }
        fn serialize_newtype_struct<T: ?Sized + Serialize>(self, _n: &'static str, _v: &T) -> Result<(), SErr> { Err(SErr) }
        fn serialize_newtype_variant<T: ?Sized + Serialize>(self, _n: &'static str, _i: u32, _v: &'static str, _x: &T) -> Result<(), SErr> { Err(SErr) }
        fn serialize_seq(self, _l: Option<usize>) -> Result<Self::SerializeSeq, SErr> { Err(SErr) }
        fn serialize_tuple(self, l: usize) -> Result<Compound<'a>, SErr> { self.0.declared = l; self.0.shape = 2; Ok(Compound(self.0)) }
        fn serialize_tuple_struct(self, n: &'static str, l: usize) -> Result<Compound<'a>, SErr> { self.0.declared = l; self.0.shape = 1; self.0.name_len = n.len(); Ok(Compound(self.0)) }
        fn serialize_tuple_variant(self, _n: &'static str, _i: u32, _v: &'static str, _l: usize) -> Result<Self::SerializeTupleVariant, SErr> { Err(SErr) }
        fn serialize_map(self, _l: Option<usize>) -> Result<Self::SerializeMap, SErr> { Err(SErr) }
        fn serialize_struct(self, _n: &'static str, _l: usize) -> Result<Self::SerializeStruct, SErr> { Err(SErr) }
        fn serialize_struct_variant(self, _n: &'static str, _i: u32, _v: &'static str, _l: usize) -> Result<Self::SerializeStructVariant, SErr> { Err(SErr) }
        fn collect_str<T: ?Sized + Display>(self, _v: &T) -> Result<(), SErr> { Err(SErr) }
        fn is_human_readable(&self) -> bool { false }
    }
    impl<'a> ser::SerializeTupleStruct for Compound<'a> {
        type Ok = (); type Error = SErr;
        fn serialize_field<T: ?Sized + Serialize>(&mut self, v: &T) -> Result<(), SErr> { v.serialize(S(self.0)) }
        fn end(self) -> Result<(), SErr> { Ok(()) }
    }
    impl<'a> ser::SerializeTuple for Compound<'a> {
        type Ok = (); type Error = SErr;
        fn serialize_element<T: ?Sized + Serialize>(&mut self, v: &T) -> Result<(), SErr> { v.serialize(S(self.0)) }
        fn end(self) -> Result<(), SErr> { Ok(()) }
    }

    // ---- deserializer over a recorded sequence of `len` elements
    pub struct D<'a> { pub rec: &'a Rec, pub len: usize }
    pub struct Seq<'a> { rec: &'a Rec, len: usize, pos: usize }
    pub struct Elem { kind: u8, bits: u64 }
    impl<'de, 'a> de::Deserializer<'de> for D<'a> {
        type Error = SErr;
        fn deserialize_any<V: Visitor<'de>>(self, v: V) -> Result<V::Value, SErr> { v.visit_seq(Seq { rec: self.rec, len: self.len, pos: 0 }) }
        fn deserialize_tuple_struct<V: Visitor<'de>>(self, _n: &'static str, _l: usize, v: V) -> Result<V::Value, SErr> { v.visit_seq(Seq { rec: self.rec, len: self.len, pos: 0 }) }
        fn deserialize_tuple<V: Visitor<'de>>(self, _l: usize, v: V) -> Result<V::Value, SErr> { v.visit_seq(Seq { rec: self.rec, len: self.len, pos: 0 }) }
        serde::forward_to_deserialize_any! { bool i8 i16 i32 i64 u8 u16 u32 u64 f32 f64 char str string bytes byte_buf option unit unit_struct newtype_struct seq map struct enum identifier ignored_any }
    }
    impl<'de, 'a> de::SeqAccess<'de> for Seq<'a> {
        type Error = SErr;
        fn next_element_seed<T: DeserializeSeed<'de>>(&mut self, seed: T) -> Result<Option<T::Value>, SErr> {
            if self.pos >= self.len || self.pos >= CAP { return Ok(None); }
            let e = Elem { kind: self.rec.kind[self.pos], bits: self.rec.bits[self.pos] };
            self.pos += 1;
            seed.deserialize(e).map(Some)
        }
    }
    impl<'de> de::Deserializer<'de> for Elem {
        type Error = SErr;
        fn deserialize_any<V: Visitor<'de>>(self, v: V) -> Result<V::Value, SErr> {
            match self.kind {
                1 => v.visit_bool(self.bits != 0), 2 => v.visit_i8(self.bits as u8 as i8), 3 => v.visit_i16(self.bits as u16 as i16), 4 => v.visit_i32(self.bits as u32 as i32),
                5 => v.visit_i64(self.bits as i64), 6 => v.visit_u8(self.bits as u8), 7 => v.visit_u16(self.bits as u16), 8 => v.visit_u32(self.bits as u32), 9 => v.visit_u64(self.bits),
                10 => v.visit_f32(f32::from_bits(self.bits as u32)), 11 => v.visit_f64(f64::from_bits(self.bits)), _ => Err(SErr),
            }
        }
        serde::forward_to_deserialize_any! { bool i8 i16 i32 i64 u8 u16 u32 u64 f32 f64 char str string bytes byte_buf option unit unit_struct newtype_struct seq tuple tuple_struct map struct enum identifier ignored_any }
    }
    pub fn record<T: Serialize>(v: &T) -> (Rec, bool) { let mut r = Rec::new(); let ok = v.serialize(S(&mut r)).is_ok(); (r, ok) }
}
