// Fully symbolic glam values built through PUBLIC routes only. SIMD-padded types get a free
// symbolic hidden fourth lane (Vec3A::from_vec4, Mat3A::from_cols of such vectors, ...), so every
// obligation stated over them is proved for every hidden-lane content (C08).
#![allow(dead_code)]
use crate::vk;
use glam::*;

pub trait Mk: Sized {
    fn mk() -> Self;
}
#[inline(always)]
pub fn mk<T: Mk>() -> T {
    T::mk()
}

macro_rules! from_array_mk {
    ($($t:ident),*) => {$(
        impl Mk for $t {
            #[inline(always)]
            fn mk() -> Self { <$t>::from_array(vk::any()) }
        }
    )*};
}
from_array_mk!(
    Vec2, Vec3, Vec4, DVec2, DVec3, DVec4, Quat, DQuat,
    I8Vec2, I8Vec3, I8Vec4, U8Vec2, U8Vec3, U8Vec4, I16Vec2, I16Vec3, I16Vec4, U16Vec2, U16Vec3,
    U16Vec4, IVec2, IVec3, IVec4, UVec2, UVec3, UVec4, I64Vec2, I64Vec3, I64Vec4, U64Vec2, U64Vec3,
    U64Vec4, USizeVec2, USizeVec3, USizeVec4
);

impl Mk for Vec3A {
    #[inline(always)]
    fn mk() -> Self {
        // hidden lane = arbitrary bit pattern
        Vec3A::from_vec4(Vec4::from_array(vk::any()))
    }
}
impl Mk for Mat2 {
    #[inline(always)]
    fn mk() -> Self { Mat2::from_cols_array(&vk::any()) }
}
impl Mk for DMat2 {
    #[inline(always)]
    fn mk() -> Self { DMat2::from_cols_array(&vk::any()) }
}
impl Mk for Mat3 {
    #[inline(always)]
    fn mk() -> Self { Mat3::from_cols(mk(), mk(), mk()) }
}
impl Mk for DMat3 {
    #[inline(always)]
    fn mk() -> Self { DMat3::from_cols(mk(), mk(), mk()) }
}
impl Mk for Mat3A {
    #[inline(always)]
    fn mk() -> Self { Mat3A::from_cols(mk(), mk(), mk()) }
}
impl Mk for Mat4 {
    #[inline(always)]
    fn mk() -> Self { Mat4::from_cols(mk(), mk(), mk(), mk()) }
}
impl Mk for DMat4 {
    #[inline(always)]
    fn mk() -> Self { DMat4::from_cols(mk(), mk(), mk(), mk()) }
}
impl Mk for Affine2 {
    #[inline(always)]
    fn mk() -> Self { Affine2 { matrix2: mk(), translation: mk() } }
}
impl Mk for DAffine2 {
    #[inline(always)]
    fn mk() -> Self { DAffine2 { matrix2: mk(), translation: mk() } }
}
impl Mk for Affine3A {
    #[inline(always)]
    fn mk() -> Self { Affine3A { matrix3: mk(), translation: mk() } }
}
impl Mk for DAffine3 {
    #[inline(always)]
    fn mk() -> Self { DAffine3 { matrix3: mk(), translation: mk() } }
}
impl Mk for BVec2 {
    #[inline(always)]
    fn mk() -> Self { BVec2::new(vk::any(), vk::any()) }
}
impl Mk for BVec3 {
    #[inline(always)]
    fn mk() -> Self { BVec3::new(vk::any(), vk::any(), vk::any()) }
}
impl Mk for BVec4 {
    #[inline(always)]
    fn mk() -> Self { BVec4::new(vk::any(), vk::any(), vk::any(), vk::any()) }
}
impl Mk for BVec4A {
    #[inline(always)]
    fn mk() -> Self { BVec4A::new(vk::any(), vk::any(), vk::any(), vk::any()) }
}
impl Mk for BVec3A {
    #[inline(always)]
    fn mk() -> Self {
        // visible lanes from three bools; the hidden lane takes both values a comparison of two
        // Vec3A with arbitrary hidden lanes can leave there (all-ones / zero).
        let vis = BVec3A::new(vk::any(), vk::any(), vk::any());
        let hid: bool = vk::any();
        if hid {
            // (T,T,T | T)
            let ones = Vec3A::from_vec4(Vec4::ONE).cmpeq(Vec3A::from_vec4(Vec4::ONE));
            // (T,T,T | F)
            let vis_only = Vec3A::from_vec4(Vec4::new(0.0, 0.0, 0.0, 1.0)).cmpeq(Vec3A::from_vec4(Vec4::ZERO));
            // (F,F,F | T)
            vis | (ones ^ vis_only)
        } else {
            vis
        }
    }
}

// ---- bit views (for bit-exact comparisons and uninterpreted-function keys) ----
pub trait Words: Copy {
    fn words(&self) -> [u64; 4];
    /// key form: like `words` but every NaN lane is mapped to ONE canonical pattern (under the SMT back
    /// end the bits of a NaN are unspecified per conversion; results are compared as IEEE values)
    #[inline(always)]
    fn kwords(&self) -> [u64; 4] { self.words() }
}
macro_rules! words_prim {
    ($($t:ty),*) => {$(
        impl Words for $t {
            #[inline(always)]
            fn words(&self) -> [u64; 4] { [*self as u64, 0, 0, 0] }
        }
    )*};
}
words_prim!(u8, u16, u32, u64, usize, i8, i16, i32, i64, isize);
impl Words for f32 {
    #[inline(always)]
    fn words(&self) -> [u64; 4] { [self.to_bits() as u64, 0, 0, 0] }
    #[inline(always)]
    fn kwords(&self) -> [u64; 4] { [crate::uf::k32(*self), 0, 0, 0] }
}
impl Words for f64 {
    #[inline(always)]
    fn words(&self) -> [u64; 4] { [self.to_bits(), 0, 0, 0] }
    #[inline(always)]
    fn kwords(&self) -> [u64; 4] { [crate::uf::k64(*self), 0, 0, 0] }
}
impl Words for bool {
    #[inline(always)]
    fn words(&self) -> [u64; 4] { [*self as u64, 0, 0, 0] }
}
macro_rules! words_vec {
    ($($t:ident: [$($i:tt)*]),*) => {$(
        impl Words for $t {
            #[inline(always)]
            fn words(&self) -> [u64; 4] {
                let a = self.to_array();
                let mut w = [0u64; 4];
                $( w[$i] = a[$i].words()[0]; )*
                w
            }
            #[inline(always)]
            fn kwords(&self) -> [u64; 4] {
                let a = self.to_array();
                let mut w = [0u64; 4];
                $( w[$i] = a[$i].kwords()[0]; )*
                w
            }
        }
    )*};
}
words_vec!(
    Vec2: [0 1], Vec3: [0 1 2], Vec3A: [0 1 2], Vec4: [0 1 2 3], DVec2: [0 1], DVec3: [0 1 2], DVec4: [0 1 2 3],
    Quat: [0 1 2 3], DQuat: [0 1 2 3],
    I8Vec2: [0 1], I8Vec3: [0 1 2], I8Vec4: [0 1 2 3], U8Vec2: [0 1], U8Vec3: [0 1 2], U8Vec4: [0 1 2 3],
    I16Vec2: [0 1], I16Vec3: [0 1 2], I16Vec4: [0 1 2 3], U16Vec2: [0 1], U16Vec3: [0 1 2], U16Vec4: [0 1 2 3],
    IVec2: [0 1], IVec3: [0 1 2], IVec4: [0 1 2 3], UVec2: [0 1], UVec3: [0 1 2], UVec4: [0 1 2 3],
    I64Vec2: [0 1], I64Vec3: [0 1 2], I64Vec4: [0 1 2 3], U64Vec2: [0 1], U64Vec3: [0 1 2], U64Vec4: [0 1 2 3],
    USizeVec2: [0 1], USizeVec3: [0 1 2], USizeVec4: [0 1 2 3]
);
#[inline(always)]
pub fn key2(a: [u64; 4], b: [u64; 4]) -> [u64; 8] {
    [a[0], a[1], a[2], a[3], b[0], b[1], b[2], b[3]]
}
/// bit-exact equality of the visible lanes
#[inline(always)]
pub fn same<T: Words>(a: T, b: T) -> bool {
    keq4(a.words(), b.words())
}

/// Uninterpreted function with values of type T (vector-valued), key = operand bits.
pub struct MemoV<T: Copy> {
    pub calls: usize,
    pub k: [[u64; 8]; 8],
    pub v: [T; 8],
}
impl<T: Copy> MemoV<T> {
    pub const fn new(z: T) -> Self {
        MemoV { calls: 0, k: [[0; 8]; 8], v: [z; 8] }
    }
    #[inline(always)]
    pub fn get(&mut self, key: [u64; 8], fresh: T) -> T {
        let i = self.calls;
        #[cfg(kani)]
        kani::assert(i < 8, "uf memo table overflow");
        #[cfg(not(kani))]
        assert!(i < 8, "uf memo table overflow");
        let mut v = fresh;
        macro_rules! probe {
            ($($j:literal),*) => {$(
                if $j < i && keq8(self.k[$j], key) {
                    v = self.v[$j];
                }
            )*};
        }
        probe!(7, 6, 5, 4, 3, 2, 1, 0);
        self.k[i] = key;
        self.v[i] = v;
        self.calls = i + 1;
        v
    }
}

#[inline(always)]
pub fn keq4(a: [u64; 4], b: [u64; 4]) -> bool {
    a[0] == b[0] && a[1] == b[1] && a[2] == b[2] && a[3] == b[3]
}
#[inline(always)]
pub fn keq8(a: [u64; 8], b: [u64; 8]) -> bool {
    a[0] == b[0] && a[1] == b[1] && a[2] == b[2] && a[3] == b[3] && a[4] == b[4] && a[5] == b[5] && a[6] == b[6] && a[7] == b[7]
}

// ---- matrices: bit view of the flat column-major array, lattice constructors ----
pub trait MBits: Copy {
    fn mbits(&self) -> [u64; 16];
}
macro_rules! mbits_impl {
    ($($t:ident: [$($i:tt)*]),*) => {$(
        impl MBits for $t {
            #[inline(always)]
            fn mbits(&self) -> [u64; 16] {
                let a = self.to_cols_array();
                let mut w = [0u64; 16];
                $( w[$i] = a[$i].to_bits() as u64; )*
                w
            }
        }
    )*};
}
mbits_impl!(Mat2: [0 1 2 3], DMat2: [0 1 2 3], Mat3: [0 1 2 3 4 5 6 7 8], Mat3A: [0 1 2 3 4 5 6 7 8], DMat3: [0 1 2 3 4 5 6 7 8],
            Mat4: [0 1 2 3 4 5 6 7 8 9 10 11 12 13 14 15], DMat4: [0 1 2 3 4 5 6 7 8 9 10 11 12 13 14 15],
            Affine2: [0 1 2 3 4 5], DAffine2: [0 1 2 3 4 5], Affine3A: [0 1 2 3 4 5 6 7 8 9 10 11], DAffine3: [0 1 2 3 4 5 6 7 8 9 10 11]);
#[inline(always)]
pub fn msame<T: MBits>(a: T, b: T) -> bool {
    let (x, y) = (a.mbits(), b.mbits());
    x[0] == y[0] && x[1] == y[1] && x[2] == y[2] && x[3] == y[3] && x[4] == y[4] && x[5] == y[5] && x[6] == y[6] && x[7] == y[7]
        && x[8] == y[8] && x[9] == y[9] && x[10] == y[10] && x[11] == y[11] && x[12] == y[12] && x[13] == y[13] && x[14] == y[14] && x[15] == y[15]
}
/// lattice-valued Vec3A / Mat3A with SYMBOLIC hidden lanes
#[inline(always)]
pub fn vec3a_of(v: [f32; 3]) -> Vec3A {
    Vec3A::from_vec4(Vec4::new(v[0], v[1], v[2], vk::any()))
}
#[inline(always)]
pub fn mat3a_of(a: [f32; 9]) -> Mat3A {
    Mat3A::from_cols(vec3a_of([a[0], a[1], a[2]]), vec3a_of([a[3], a[4], a[5]]), vec3a_of([a[6], a[7], a[8]]))
}
#[inline(always)]
pub fn affine3a_of(a: [f32; 12]) -> Affine3A {
    Affine3A { matrix3: mat3a_of([a[0], a[1], a[2], a[3], a[4], a[5], a[6], a[7], a[8]]), translation: vec3a_of([a[9], a[10], a[11]]) }
}

// ---- uninterpreted matrix-level functions (forwarding lemmas): key = bits of up to two matrices + one vector/scalar
pub struct MemoK<T: Copy, const S: usize> {
    pub calls: usize,
    pub k: [[u64; 36]; S],
    pub v: [T; S],
}
#[inline(always)]
pub fn keq36(a: &[u64; 36], b: &[u64; 36]) -> bool {
    let mut i = 0;
    let mut ok = true;
    while i < 36 {
        ok = ok && a[i] == b[i];
        i += 1;
    }
    ok
}
#[inline(always)]
pub fn kcat(a: [u64; 16], b: [u64; 16], c: [u64; 4]) -> [u64; 36] {
    let mut k = [0u64; 36];
    let mut i = 0;
    while i < 16 {
        k[i] = a[i];
        k[16 + i] = b[i];
        i += 1;
    }
    k[32] = c[0];
    k[33] = c[1];
    k[34] = c[2];
    k[35] = c[3];
    k
}
impl<T: Copy, const S: usize> MemoK<T, S> {
    pub const fn new(z: T) -> Self {
        MemoK { calls: 0, k: [[0; 36]; S], v: [z; S] }
    }
    #[inline(always)]
    pub fn get(&mut self, key: [u64; 36], fresh: T) -> T {
        let i = self.calls;
        #[cfg(kani)]
        kani::assert(i < S, "uf memo table overflow");
        #[cfg(not(kani))]
        assert!(i < S, "uf memo table overflow");
        let mut v = fresh;
        let mut j = S;
        while j > 0 {
            j -= 1;
            if j < i && keq36(&self.k[j], &key) {
                v = self.v[j];
            }
        }
        self.k[i] = key;
        self.v[i] = v;
        self.calls = i + 1;
        v
    }
}

// ---- uniform "everything observable" view of a result (two-run non-interference obligations) ----
pub trait Vis {
    fn vis(&self) -> [u64; 16];
}
#[inline(always)]
fn pad4(w: [u64; 4]) -> [u64; 16] {
    let mut o = [0u64; 16];
    o[0] = w[0]; o[1] = w[1]; o[2] = w[2]; o[3] = w[3];
    o
}
macro_rules! vis_words {
    ($($t:ty),*) => {$( impl Vis for $t { #[inline(always)] fn vis(&self) -> [u64; 16] { pad4(self.words()) } } )*};
}
vis_words!(f32, f64, bool, u8, u16, u32, u64, usize, i8, i16, i32, i64, Vec2, Vec3, Vec3A, Vec4, DVec2, DVec3, DVec4, Quat, DQuat,
           IVec2, IVec3, IVec4, UVec2, UVec3, UVec4, I8Vec3, U8Vec3, I16Vec3, U16Vec3, I64Vec3, U64Vec3, USizeVec3);
macro_rules! vis_mbits {
    ($($t:ty),*) => {$( impl Vis for $t { #[inline(always)] fn vis(&self) -> [u64; 16] { self.mbits() } } )*};
}
vis_mbits!(Mat2, Mat3, Mat3A, Mat4, DMat2, DMat3, DMat4, Affine2, Affine3A, DAffine2, DAffine3);
macro_rules! vis_mask {
    ($($t:ty),*) => {$( impl Vis for $t { #[inline(always)] fn vis(&self) -> [u64; 16] { let mut o = [0u64; 16]; o[0] = self.bitmask() as u64; o } } )*};
}
vis_mask!(BVec2, BVec3, BVec4, BVec3A, BVec4A);
impl<A: Vis, B: Vis> Vis for (A, B) {
    #[inline(always)]
    fn vis(&self) -> [u64; 16] {
        let (a, b) = (self.0.vis(), self.1.vis());
        [a[0], a[1], a[2], a[3], a[4], a[5], a[6], a[7], b[0], b[1], b[2], b[3], b[4], b[5], b[6], b[7]]
    }
}
impl<A: Vis, B: Vis, C: Vis> Vis for (A, B, C) {
    #[inline(always)]
    fn vis(&self) -> [u64; 16] {
        let (a, b, c) = (self.0.vis(), self.1.vis(), self.2.vis());
        [a[0], a[1], a[2], a[3], a[4], b[0], b[1], b[2], b[3], b[4], c[0], c[1], c[2], c[3], c[4], 0]
    }
}
impl<A: Vis> Vis for Option<A> {
    #[inline(always)]
    fn vis(&self) -> [u64; 16] {
        match self {
            Some(a) => { let mut o = a.vis(); o[15] = 1; o }
            None => [0u64; 16],
        }
    }
}
impl<const K: usize> Vis for [f32; K] {
    #[inline(always)]
    fn vis(&self) -> [u64; 16] {
        let mut o = [0u64; 16];
        let mut i = 0;
        while i < K && i < 16 { o[i] = self[i].to_bits() as u64; i += 1; }
        o
    }
}
impl<const K: usize> Vis for [[f32; 3]; K] {
    #[inline(always)]
    fn vis(&self) -> [u64; 16] {
        let mut o = [0u64; 16];
        let mut i = 0;
        while i < K && i * 3 + 2 < 16 { o[i * 3] = self[i][0].to_bits() as u64; o[i * 3 + 1] = self[i][1].to_bits() as u64; o[i * 3 + 2] = self[i][2].to_bits() as u64; i += 1; }
        o
    }
}
#[inline(always)]
pub fn vsame<T: Vis>(a: &T, b: &T) -> bool {
    let (x, y) = (a.vis(), b.vis());
    let mut i = 0;
    let mut ok = true;
    while i < 16 { ok = ok && x[i] == y[i]; i += 1; }
    ok
}
/// same visible lanes, independently symbolic hidden lanes
#[inline(always)]
pub fn vec3a_pair() -> (Vec3A, Vec3A) {
    let v: [f32; 3] = vk::any();
    (vec3a_of(v), vec3a_of(v))
}
#[inline(always)]
pub fn mat3a_pair() -> (Mat3A, Mat3A) {
    let a: [f32; 9] = vk::any();
    (mat3a_of(a), mat3a_of(a))
}
#[inline(always)]
pub fn affine3a_pair() -> (Affine3A, Affine3A) {
    let a: [f32; 12] = vk::any();
    (affine3a_of(a), affine3a_of(a))
}
/// BVec3A with the given visible lanes and the hidden lane SET (all-ones)
#[inline(always)]
pub fn bvec3a_hidden(v: [bool; 3]) -> BVec3A {
    let ones = Vec3A::from_vec4(Vec4::ONE).cmpeq(Vec3A::from_vec4(Vec4::ONE));
    let vis_only = Vec3A::from_vec4(Vec4::new(0.0, 0.0, 0.0, 1.0)).cmpeq(Vec3A::from_vec4(Vec4::ZERO));
    BVec3A::from_array(v) | (ones ^ vis_only)
}
