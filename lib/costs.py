#!/usr/bin/env python3
"""Maintenance tool (not run by the checks): merge measured per-obligation solver times into
lib/costs.json.  usage: lib/costs.py [--reset] [--mark-undecided] [evidence.json ...]  (default: evidence/*.json)
The checks use the table for load balancing, to defer obligations slower than 150 s from the quick
to the thorough tier, and to EXCLUDE obligations marked "undecided" (not decided by the installed
solvers within the thorough timeout; listed in every evidence file under `excluded_undecided`)."""
import json, os, glob, sys
V = os.path.dirname(os.path.dirname(os.path.abspath(__file__)))
p = os.path.join(V, "lib", "costs.json")
args = [a for a in sys.argv[1:] if not a.startswith("--")]
costs = {} if "--reset" in sys.argv else (json.load(open(p)) if os.path.exists(p) else {})
files = args or glob.glob(os.path.join(V, "evidence", "*.json"))
for f in files:
    e = json.load(open(f))
    for r in e["coverage"].get("per_obligation", []):
        n = r["ob"]
        if r["verdict"].startswith("undecided:timeout"):
            if "--keep-min" in sys.argv and isinstance(costs.get(n), float) and costs[n] <= 150:
                continue  # decided in a quick run before: a timeout under heavier load does not un-decide it
            costs[n] = "undecided" if "--mark-undecided" in sys.argv else 999.0
        elif r["verdict"].startswith("undecided:unsupported-construct") and "--mark-undecided" in sys.argv:
            costs[n] = "undecided"   # Kani reports an unsupported construct on a reachable path of this body
        elif r["verdict"].startswith("undecided:uf-table-overflow"):
            costs[n] = "undecided"   # the uninterpreted-function tables of lib/uf.rs are too small for this body
        elif r.get("time_s") is not None and r["verdict"] in ("discharged", "canary-refuted", "known-finding"):
            new = round(float(r["time_s"]), 1)
            old = costs.get(n)
            # --keep-min (merging a THOROUGH run, which loads the machine more): never raise a recorded cost, so a
            # quick-tier obligation is not pushed over the deferral threshold by a measurement under heavier load
            costs[n] = min(old, new) if ("--keep-min" in sys.argv and isinstance(old, float)) else new
json.dump(costs, open(p, "w"), indent=0, sort_keys=True)
print(len(costs), "entries;", sum(1 for v in costs.values() if isinstance(v, float) and v > 150), "over 150 s;", sum(1 for v in costs.values() if v == "undecided"), "undecided")
