#!/usr/bin/env python3
"""Maintenance tool (not run by the checks): merge the measured per-obligation solver times of the
last runs (evidence/*.json) into lib/costs.json. The checks use the table for load balancing, to
defer obligations slower than 100 s from the quick to the thorough tier, and to EXCLUDE obligations
the installed solvers could not decide within the thorough timeout (listed in every evidence file
under `excluded_undecided`, never counted as proved)."""
import json, os, glob, sys
V = os.path.dirname(os.path.dirname(os.path.abspath(__file__)))
p = os.path.join(V, "lib", "costs.json")
costs = json.load(open(p)) if os.path.exists(p) else {}
for f in glob.glob(os.path.join(V, "evidence", "*.json")):
    e = json.load(open(f))
    for r in e["coverage"].get("per_obligation", []):
        n = r["ob"]
        if r["verdict"].startswith("undecided:timeout"):
            if "--mark-undecided" in sys.argv:
                costs[n] = "undecided"
        elif r.get("time_s") is not None and r["verdict"] in ("discharged", "canary-refuted", "known-finding"):
            old = costs.get(n)
            t = round(float(r["time_s"]), 1)
            costs[n] = t if not isinstance(old, (int, float)) else round(max(old * 0.5 + t * 0.5, t), 1)
json.dump(costs, open(p, "w"), indent=0, sort_keys=True)
print(len(costs), "entries")
