"""Runner: weave -> harness crate -> cargo kani -> parse -> (stage 2: name clause, counterexample,
replay on the real code) -> evidence.  See DESIGN.md section 3."""
import os, re, sys, json, time, shutil, subprocess, tempfile, hashlib, glob

sys.path.insert(0, os.path.dirname(os.path.abspath(__file__)))
import weave
from weave import Contract, LostAnchor

VERIF = weave.VERIF
REPO = weave.REPO
OUT = os.environ.get("VERIF_OUT", VERIF)   # where evidence/, logs/, replays/ are written (development aid: seeded runs)
NCPU = int(os.environ.get("VERIF_JOBS", "16"))

# --------------------------------------------------------------------------------------------
# configurations (DESIGN section 4)
CONFIGS = {
    "sse2": {"features": [], "rustflags": "", "backend": "sse2"},
    "scalar": {"features": ["scalar-math"], "rustflags": "", "backend": "scalar"},
    "fma": {"features": [], "rustflags": "-C target-feature=+fma,+avx2", "backend": "sse2"},
    "assert": {"features": ["glam-assert"], "rustflags": "", "backend": "sse2"},
    "assert_scalar": {"features": ["glam-assert", "scalar-math"], "rustflags": "", "backend": "scalar"},
    "libm": {"features": ["libm"], "rustflags": "", "backend": "sse2"},
    "feat": {"features": ["serde", "bytemuck", "mint"], "rustflags": "", "backend": "sse2"},
    "feat_scalar": {"features": ["serde", "bytemuck", "mint", "scalar-math"], "rustflags": "", "backend": "scalar"},
}

SSE_STUBS = None


def sse_stub_names():
    global SSE_STUBS
    if SSE_STUBS is None:
        src = open(os.path.join(VERIF, "model", "sse.rs")).read()
        names = re.findall(r"pub (?:unsafe )?fn (mm_[a-z0-9_]+)", src) + re.findall(r"lanewise2!\((mm_[a-z0-9_]+)", src)
        SSE_STUBS = sorted(set(names))
    return SSE_STUBS


# named stub sets: name -> list of (original, replacement)
def stub_set(name, config):
    backend = CONFIGS[config]["backend"]
    libm = "libm" in CONFIGS[config]["features"]
    mm = "libm_math" if libm else "std_math"
    if name == "sse":
        if backend != "sse2":
            return []
        return [("core::arch::x86_64::_%s" % n, "crate::sse::%s" % n) for n in sse_stub_names()]
    if name == "sse_hv":
        if backend != "sse2":
            return []
        return [("core::arch::x86_64::_%s" % n, "crate::sse::%s" % {"mm_sqrt_ps": "hv_sqrt_ps"}.get(n, n)) for n in sse_stub_names()]
    if name == "sse_uf":
        if backend != "sse2":
            return []
        out = []
        for n in sse_stub_names():
            r = {"mm_add_ps": "uf_add_ps", "mm_sub_ps": "uf_sub_ps", "mm_mul_ps": "uf_mul_ps", "mm_div_ps": "uf_div_ps", "mm_add_ss": "uf_add_ss"}.get(n, n)
            out.append(("core::arch::x86_64::_%s" % n, "crate::sse::%s" % r))
        out.append(("glam::sse2::m128_floor", "crate::sse::uf_m128_floor"))
        return out
    m = re.match(r"arith_uf(32|64)$", name)
    if m:
        w = m.group(1)
        t = "f" + w
        out = []
        for (tr, fn) in (("Add", "add"), ("Sub", "sub"), ("Mul", "mul"), ("Div", "div"), ("Rem", "rem")):
            out.append(("<%s as core::ops::%s<%s>>::%s" % (t, tr, t, fn), "crate::uf::u%s_%s" % (fn, t)))
            out.append(("<%s as core::ops::%sAssign<%s>>::%s_assign" % (t, tr, t, fn), "crate::uf::u%s_assign_%s" % (fn, t)))
        return out
    m = re.match(r"hv_(\w+?)(32|64)$", name)
    if m:
        f, w = m.group(1), m.group(2)
        mod = "f32" if w == "32" else "f64"
        return [("glam::%s::math::%s::%s" % (mod, mm, f), "crate::uf::hv_%s_f%s" % (f, w))]
    m = re.match(r"uf_(\w+?)(32|64)$", name)
    if m:
        f, w = m.group(1), m.group(2)
        mod = "f32" if w == "32" else "f64"
        if f == "acos_approx":
            return [("glam::%s::math::%s::acos_approx" % (mod, mm), "crate::uf::acos_f%s" % w)]
        return [("glam::%s::math::%s::%s" % (mod, mm, f), "crate::uf::%s_f%s" % (f, w))]
    if name == "rem32":
        return [("<f32 as core::ops::Rem<f32>>::rem", "crate::uf::rem_f32"),
                ("<f32 as core::ops::RemAssign<f32>>::rem_assign", "crate::uf::rem_assign_f32")]
    if name == "rem64":
        return [("<f64 as core::ops::Rem<f64>>::rem", "crate::uf::rem_f64"),
                ("<f64 as core::ops::RemAssign<f64>>::rem_assign", "crate::uf::rem_assign_f64")]
    raise KeyError(name)


class Ob:
    """One obligation = one Kani harness."""

    def __init__(self, name, prop, body, *, fn="", kind="lemma", contract=None, solver="cadical",
                 stubs=("sse",), tier="quick", unwind=None, expect="pass", desc="", stub_verified=(),
                 timeout=None, panic=False, cls="lane", bounded=None, clauses=None, split=None, plain=False, pin=False):
        self.name, self.prop, self.body, self.fn, self.kind = name, prop, body, fn, kind
        self.contract, self.solver, self.stubs, self.tier = contract, solver, list(stubs), tier
        self.unwind, self.expect, self.desc = unwind, expect, desc
        self.stub_verified, self.timeout, self.panic, self.cls = list(stub_verified), timeout, panic, cls
        self.bounded = bounded      # text describing the bound when this is only a bounded stand-in
        self.clauses = clauses      # number of clauses aggregated in the body (for counting)
        self.split = split          # name of the stage-2 harness with one assertion per clause
        self.plain = plain          # True: verified against the UNWOVEN copy (no contract attributes)
        self.pin = pin              # True: stays in the quick tier even if its recorded cost exceeds the deferral threshold
        assert re.match(r"^[a-z0-9_]+$", name), name


def contract_ob(name, prop, c, args, call, *, lemma_only=False, **kw):
    """Obligations for woven contract `c`: the `proof_for_contract` harness (stage 1) and its twin
    `<name>__split`, a plain proof that assumes the same `requires` text, calls the function and
    asserts the same `ensures` text (used in stage 2 for the counterexample and for the replay on the
    real code; concrete playback through Kani's contract instrumentation does not terminate in useful
    time).  With lemma_only=True the twin is the stage-1 obligation: used where the function reaches an
    uninterpreted-function stub, whose memo table is global state outside the contract's write set.
    args: list of (param_name, ctor_expr); call: expression over the local names (self -> self_)."""
    lines = []
    for (n, ctor) in args:
        ln = "self_" if n == "self" else n
        lines.append("let %s = %s;" % (ln, ctor))
    pre = " && ".join("(%s)" % re.sub(r"\bself\b", "self_", r) for r in c.requires)
    twin = list(lines)
    if pre:
        twin.append("vk::assume(%s);" % pre)
    lines.append("let r = %s;" % call)
    twin.append("let r = %s;" % call)
    for i, e in enumerate(c.ensures):
        e2 = re.sub(r"\bself\b", "self_", e)
        twin.append('check!((%s)(&r), "ensures[%d] of %s");' % (e2, i, c.path))
    desc = kw.pop("desc", "")
    sv = kw.pop("stub_verified", [])
    if lemma_only:
        return [Ob(name, prop, "\n    ".join(twin), fn=c.path, kind="contract-as-lemma", desc=desc, stub_verified=sv,
                   clauses=len(c.ensures), **kw)]
    main = Ob(name, prop, "\n    ".join(lines), fn=c.path, kind="contract", contract=c.path, desc=desc, stub_verified=sv,
              split=name + "__split", clauses=len(c.ensures), **kw)
    tw = Ob(name + "__split", prop, "\n    ".join(twin), fn=c.path, kind="contract-twin", desc=desc, stub_verified=sv, **kw)
    return [main, tw]


def assoc_trees(terms, op="+"):
    """All association orders of a k-term sum/product (k <= 4), as expression strings, in the same
    order as the `sumK` / `prodK` helpers of the woven spec module."""
    t = list(terms)
    o = " %s " % op
    if len(t) == 1:
        return [t[0]]
    if len(t) == 2:
        return ["(%s%s%s)" % (t[0], o, t[1])]
    if len(t) == 3:
        a, b, c = t
        return ["((%s%s%s)%s%s)" % (a, o, b, o, c), "(%s%s(%s%s%s))" % (a, o, b, o, c), "((%s%s%s)%s%s)" % (a, o, c, o, b)]
    a, b, c, d = t
    cat = lambda p, q, r, u: "(((%s%s%s)%s%s)%s%s)" % (p, o, q, o, r, o, u)
    bal = lambda p, q, r, u: "((%s%s%s)%s(%s%s%s))" % (p, o, q, o, r, o, u)
    return [cat(a, b, c, d), cat(a, b, d, c), cat(a, c, b, d), cat(a, c, d, b), cat(a, d, b, c), cat(a, d, c, b), cat(b, c, a, d), cat(b, c, d, a),
            cat(b, d, a, c), cat(b, d, c, a), cat(c, d, a, b), cat(c, d, b, a), bal(a, b, c, d), bal(a, c, b, d), bal(a, d, b, c)]


PROBE = False


def load_trees():
    try:
        return json.load(open(os.path.join(VERIF, "lib", "trees.json")))
    except Exception:
        return {}


def tree_obs(name, prop, setup, lanes, w, *, op="+", fn="", desc="", stubs=("sse",), tier="quick", extra_check=""):
    """tree_in obligation (DESIGN 3.3): every (result, terms) lane must equal the sum/product of its terms
    in SOME association order.  Discharged through a fast path - the single tree recorded in
    lib/trees.json as matching the current code (a stronger clause, seconds in cvc5) - with the full
    disjunction over all orders as the fallback `<name>__full`, run only when the fast path is refuted:
    a re-association then still verifies (no false alarm), anything else is a violation."""
    helper = ("sum" if op == "+" else "prod")
    k = len(lanes[0][1])
    full = " && ".join("__verif::%s%d_%d(%s, %s)" % (helper, k, w, r, ", ".join(ts)) for (r, ts) in lanes) if k >= 2 else " && ".join("__verif::leq%d(%s, %s)" % (w, r, ts[0]) for (r, ts) in lanes)
    full_body = setup + '\n    check!(%s, "%s of the terms in some association order");' % (full, "sum" if op == "+" else "product") + extra_check
    trees = load_trees()
    if name not in trees and "_fma_" in name and name.replace("_fma_", "_sse2_") in trees:
        trees[name] = trees[name.replace("_fma_", "_sse2_")]  # same source file, same order
    ntrees = len(assoc_trees(lanes[0][1], op))
    out = []
    if PROBE and name not in trees and ntrees > 1:
        for i in range(ntrees):
            cond = " && ".join("__verif::leq%d(%s, %s)" % (w, r, assoc_trees(ts, op)[i]) for (r, ts) in lanes)
            o = Ob("%s__probe%d" % (name, i), prop, setup + '\n    check!(%s, "tree %d");' % (cond, i), fn=fn, kind="probe", solver="cvc5", stubs=list(stubs), tier=tier, cls="structure", desc="probe tree %d" % i)
            out.append(o)
        return out
    fullob = Ob(name + "__full", prop, full_body, fn=fn, kind="lemma-fallback", solver="cvc5", stubs=list(stubs), tier=tier, cls="structure", desc=desc + " [full disjunction]")
    if name in trees and ntrees > 1:
        i = trees[name]
        cond = " && ".join("__verif::leq%d(%s, %s)" % (w, r, assoc_trees(ts, op)[i]) for (r, ts) in lanes)
        fast = Ob(name, prop, setup + '\n    check!(%s, "the association order recorded for the current code (tree %d)");' % (cond, i) + extra_check, fn=fn, kind="lemma", solver="cvc5",
                  stubs=list(stubs), tier=tier, cls="structure", desc=desc + " [fast path: recorded tree %d of %d; fallback: any order]" % (i, ntrees), clauses=len(lanes))
        fast.fallback = fullob.name
        out += [fast, fullob]
    else:
        main = Ob(name, prop, full_body, fn=fn, kind="lemma", solver="cvc5", stubs=list(stubs), tier=tier, cls="structure", desc=desc, clauses=len(lanes))
        out.append(main)
    return out


# --------------------------------------------------------------------------------------------
def harness_text(ob, config):
    if ob.kind == "native":
        return "/// [%s] native bounded check on the real code: %s\n#[cfg(not(kani))]\npub fn %s() {\n    %s\n}" % (
            ob.prop, ob.desc.replace("\n", " "), ob.name, ob.body)
    a = []
    a.append("/// [%s] %s %s" % (ob.prop, ob.kind, ob.desc.replace("\n", " ")))
    if ob.contract:
        a.append("#[cfg_attr(kani, kani::proof_for_contract(%s))]" % ob.contract)
    else:
        a.append("#[cfg_attr(kani, kani::proof)]")
    if ob.solver and ob.solver != "default":
        a.append("#[cfg_attr(kani, kani::solver(%s))]" % ob.solver)
    if ob.unwind:
        a.append("#[cfg_attr(kani, kani::unwind(%d))]" % ob.unwind)
    if ob.panic:
        a.append("#[cfg_attr(kani, kani::should_panic)]")
    for s in ob.stubs:
        for (o, r) in stub_set(s, config) if isinstance(s, str) else [s]:
            a.append("#[cfg_attr(kani, kani::stub(%s, %s))]" % (o, r))
    for p in ob.stub_verified:
        a.append("#[cfg_attr(kani, kani::stub_verified(%s))]" % p)
    pre = ""
    if any(isinstance(s, str) and s.startswith("arith_uf") for s in ob.stubs) and getattr(ob, "ack", "assume") != "ite":
        # all arithmetic uninterpreted: Ackermann CONSTRAINT encoding of the tables (lib/uf.rs)
        pre = "unsafe { crate::uf::ACK_ASSUME = true; }\n    "
    a.append("pub fn %s() {\n    %s%s\n    reach!();\n}" % (ob.name, pre, ob.body))
    return "\n".join(a)


LIB_HEAD = """#![allow(unused, non_snake_case, static_mut_refs, clippy::all)]
#![recursion_limit = "2048"]
#[macro_use]
pub mod vk;
#[cfg(kani)]
pub mod sse;
pub mod uf;
pub mod mk;
pub mod sp;
use glam::*;
use glam::__verif;
use crate::mk::{mk, Words};
"""


def gen_crate(dirpath, glam_path, config, obs, extra_rust="", replay=False):
    os.makedirs(os.path.join(dirpath, "src"), exist_ok=True)
    os.makedirs(os.path.join(dirpath, ".cargo"), exist_ok=True)
    feats = CONFIGS[config]["features"]
    deps = 'glam = { path = "%s", default-features = true, features = [%s] }\n' % (
        glam_path, ", ".join('"%s"' % f for f in feats))
    if "serde" in feats:
        deps += 'serde = { version = "1.0", default-features = false }\n'
    if "bytemuck" in feats:
        deps += 'bytemuck = { version = "1.9", default-features = false }\n'
    if "mint" in feats:
        deps += 'mint = { version = "0.5.8", default-features = false }\n'
    open(os.path.join(dirpath, "Cargo.toml"), "w").write(
        '[package]\nname = "gv"\nversion = "0.0.0"\nedition = "2021"\n\n[dependencies]\n%s\n'
        '[lints.rust]\nunexpected_cfgs = { level = "allow" }\n\n[workspace]\n' % deps)
    open(os.path.join(dirpath, ".cargo", "config.toml"), "w").write("[net]\noffline = true\n")
    shutil.copy2(os.path.join(REPO, "Cargo.lock"), os.path.join(dirpath, "Cargo.lock"))
    for f in ("vk.rs", "uf.rs", "mk.rs", "sp.rs"):
        shutil.copy2(os.path.join(VERIF, "lib", f), os.path.join(dirpath, "src", f))
    shutil.copy2(os.path.join(VERIF, "model", "sse.rs"), os.path.join(dirpath, "src", "sse.rs"))
    parts = [LIB_HEAD, extra_rust]
    for ob in obs:
        parts.append(harness_text(ob, config))
    # replay dispatcher
    disp = ["#[cfg(not(kani))]\npub fn run_harness(name: &str) -> bool {\n    match name {"]
    for ob in obs:
        disp.append('        "%s" => %s(),' % (ob.name, ob.name))
    disp.append("        _ => return false,\n    }\n    true\n}")
    parts.append("\n".join(disp))
    open(os.path.join(dirpath, "src", "lib.rs"), "w").write("\n\n".join(parts) + "\n")
    if replay:
        open(os.path.join(dirpath, "src", "main.rs"), "w").write(REPLAY_MAIN)


REPLAY_MAIN = r"""
// replay driver:  <harness> <hex bytes of value 0> <hex bytes of value 1> ...
//                 --search <tries> <seed> <harness>     bounded concrete search on the real code
fn report(res: std::thread::Result<bool>) -> bool {
    let inputs = gv::vk::feed::LOG.with(|l| l.borrow().clone());
    println!("INPUTS {}", inputs.join(" "));
    let broken = gv::vk::feed::ASSUME_BROKEN.with(|a| *a.borrow());
    if broken {
        println!("ASSUMPTION-NOT-MET");
    }
    match res {
        Ok(true) => {
            let fails = gv::vk::feed::FAILS.with(|f| f.borrow().clone());
            for f in &fails {
                println!("FAILED-CLAUSE {}", f);
            }
            if fails.is_empty() { println!("ALL-CLAUSES-HOLD"); }
            !fails.is_empty() && !broken
        }
        Ok(false) => { println!("UNKNOWN-HARNESS"); false }
        Err(_) => { println!("PANICKED"); !broken }
    }
}
fn main() {
    let args: Vec<String> = std::env::args().collect();
    std::panic::set_hook(Box::new(|_| {}));
    if args[1] == "--search" {
        let tries: u64 = args[2].parse().unwrap();
        let seed: u64 = args[3].parse().unwrap();
        let name = args[4].clone();
        let want_panic = args.len() > 5 && args[5] == "expect-panic";
        for k in 0..tries {
            gv::vk::feed::reset(seed.wrapping_mul(0x9E37_79B9_7F4A_7C15).wrapping_add(k * 2 + 1));
            let n2 = name.clone();
            let res = std::panic::catch_unwind(move || gv::run_harness(&n2));
            let broken = gv::vk::feed::ASSUME_BROKEN.with(|a| *a.borrow());
            let fails = gv::vk::feed::FAILS.with(|f| f.borrow().len());
            let bad = if want_panic { res.is_ok() && !broken } else { !broken && (res.is_err() || fails > 0) };
            if bad {
                println!("SEARCH-FOUND try={}", k);
                report(res);
                return;
            }
        }
        println!("SEARCH-NOTHING tries={}", tries);
        return;
    }
    let name = args[1].clone();
    let mut vals: Vec<Vec<u8>> = Vec::new();
    for a in &args[2..] {
        let mut v = Vec::new();
        let mut i = 0;
        while i + 1 < a.len() {
            v.push(u8::from_str_radix(&a[i..i + 2], 16).unwrap());
            i += 2;
        }
        vals.push(v);
    }
    gv::vk::feed::load(vals);
    let res = std::panic::catch_unwind(move || gv::run_harness(&name));
    report(res);
}
"""


# --------------------------------------------------------------------------------------------
def kani_env(config):
    env = dict(os.environ)
    env["RUSTFLAGS"] = ("--cap-lints=warn " + CONFIGS[config]["rustflags"]).strip()
    env["CARGO_NET_OFFLINE"] = "true"
    env.pop("RUSTC_WRAPPER", None)
    return env


KANI_FLAGS = ["-Z", "function-contracts", "-Z", "stubbing", "-Z", "unstable-options", "--no-overflow-checks"]


def start_worker(crate, config, names, timeout_s, log_path):
    """Stage 1 worker: one `cargo kani` process verifying its crate's harnesses sequentially with
    CBMC's native output (`--output-format old`): Kani's JSON post-processing dominated run time
    (measured 57 s vs 5 s of CBMC for a 768-check bundle)."""
    cmd = ["cargo", "kani"] + KANI_FLAGS + ["--output-format", "old", "--harness-timeout", "%ds" % timeout_s, "--exact"]
    for n in names:
        cmd += ["--harness", n]
    lf = open(log_path, "w")
    p = subprocess.Popen(cmd, cwd=crate, env=kani_env(config), stdout=lf, stderr=subprocess.STDOUT)
    return p, lf, " ".join(cmd[:13]) + " --harness <each obligation>"


PROP_RE = re.compile(r"^\[(.+?\.[A-Za-z_\-]+\.\d+)\] (?:file \S+ )?line (\d+) (?:\[KANI_CHECK_ID_[^\]]*\] )?((?:.|\n)*?): (SUCCESS|FAILURE|UNKNOWN|ERROR)$", re.M)


def parse_old(out):
    """Parse the output of one worker (harnesses run sequentially, CBMC native output).
    Property lines: `[id] line N [KANI_CHECK_ID..] description: STATUS`.  `reachability_check`
    entries are Kani's reachability instrumentation (FAILURE = reachable) and are ignored; a cover
    property is SATISFIED when its line reads FAILURE."""
    res = {}
    parts = re.split(r"Checking harness (\S+?)\.\.\.$", out, flags=re.M)   # (not anchored: CBMC status lines interleave)
    head = parts[0]
    m = re.search(r"^error(\[E\d+\])?:.*(?:\n.*){0,14}", head, re.M)
    if m and "could not compile" in out or (m and len(parts) == 1):
        res["__compile_error__"] = m.group(0)
    for k in range(1, len(parts), 2):
        name, txt = parts[k], parts[k + 1]
        r = {"status": "unknown", "failed_checks": [], "raw": txt.strip().splitlines()[-12:]}
        n_checks = n_failed = cover_n = cover_sat = 0
        for pm in PROP_RE.finditer(txt):
            pid, line, desc, st = pm.group(1), int(pm.group(2)), pm.group(3), pm.group(4)
            if ".reachability_check." in pid or pid.startswith("reachability_check"):
                continue
            if ".cover." in pid:
                cover_n += 1
                if st == "FAILURE":
                    cover_sat += 1
                continue
            n_checks += 1
            if st != "SUCCESS":
                n_failed += 1
                fn = pid.rsplit(".", 2)[0]
                r["failed_checks"].append({"desc": desc, "file": "", "line": line, "fn": fn, "id": pid, "status": st})
                if "is not currently supported by Kani" in desc:
                    r["unsupported"] = True
        r["n_checks"], r["n_failed"], r["cover_n"], r["cover_sat"] = n_checks, n_failed, cover_n, cover_sat
        tm = re.findall(r"Runtime (Symex|Solver|decision procedure|Convert SSA|Postprocess Equation): ([0-9.e+-]+)s", txt)
        r["time"] = round(sum(float(x[1]) for x in tm if x[0] != "Solver"), 3)
        done = "** Results:" in txt or re.search(r"\*\* \d+ of \d+ failed", txt)
        if "CBMC timed out" in txt or "timed out" in txt.lower():
            r["status"] = "timeout"
        elif not done:
            r["status"] = "crash"
            r["crash"] = True
        elif n_failed == 0:
            r["status"] = "success"
        else:
            r["status"] = "failed"
        res[name] = r
    return res


def parse_block(blk, r):
    txt = "\n".join(blk)
    m = re.search(r"Verification Time: ([0-9.]+)s", txt)
    if m:
        r["time"] = float(m.group(1))
    if "VERIFICATION:- SUCCESSFUL" in txt:
        r["status"] = "success"
    elif "timed out" in txt.lower():
        r["status"] = "timeout"
    elif "VERIFICATION:- FAILED" in txt:
        r["status"] = "failed"
    return r


def parse_regular(out):
    """Parse single-harness regular output: list of checks with status, plus playback tests."""
    checks = []
    for m in re.finditer(r"Check \d+: (\S+)\n\s+- Status: (\w+)\n\s+- Description: \"((?:.|\n)*?)\"\n\s+- Location: (.*)", out):
        checks.append({"id": m.group(1), "status": m.group(2), "desc": m.group(3), "loc": m.group(4)})
    r = {"checks": checks}
    parse_block(out.splitlines(), r)
    # concrete playback: one generated unit test per failed check / satisfied cover
    tests = []
    parts = out.split("#[test]")
    for k in range(1, len(parts)):
        head = parts[k - 1][-3000:]
        hm = list(re.finditer(r"/// Check for `(\w+)`: \"", head))
        kind, desc = "assertion", ""
        if hm:
            kind = hm[-1].group(1)
            desc = head[hm[-1].end():].split('"\n')[0].replace("/// ", "")[:300]
        bm = re.search(r"let concrete_vals: Vec<Vec<u8>> = vec!\[\n((?:.*\n)*?)\s+\];", parts[k])
        if not bm:
            continue
        vals = []
        for vm in re.finditer(r"vec!\[([0-9, ]*)\]", bm.group(1)):
            vals.append([int(x) for x in vm.group(1).split(",") if x.strip()])
        tests.append({"kind": kind, "desc": desc, "vals": vals})
    r["playback"] = tests
    return r


def run_kani_single(crate, config, name, timeout_s, log_path, playback=True):
    cmd = ["cargo", "kani"] + KANI_FLAGS + ["--harness-timeout", "%ds" % timeout_s, "--exact", "--harness", name]
    if playback:
        cmd += ["-Z", "concrete-playback", "--concrete-playback=print"]
    with open(log_path, "w") as lf:
        subprocess.run(cmd, cwd=crate, env=kani_env(config), stdout=lf, stderr=subprocess.STDOUT)
    return parse_regular(open(log_path, errors="replace").read())


# --------------------------------------------------------------------------------------------
def classify(ob, r):
    """-> 'discharged' | 'refuted' | 'undecided:<why>' | 'vacuous'"""
    if r is None or r.get("status") == "unknown":
        return "undecided:no-result"
    st = r.get("status")
    if r.get("unsupported"):
        return "undecided:unsupported-construct"
    if st == "timeout":
        return "undecided:timeout"
    if st == "crash":
        return "undecided:timeout-or-crash (no result block in CBMC output)"
    if ob.panic:
        # always-panics obligation: the reach cover after the call must be unsatisfiable (no input
        # returns normally), at least one check must fail (the panic is reachable) and every failed
        # check must be a panic of the expected kind
        if r.get("cover_sat", 0) > 0:
            return "refuted"  # some input returns normally
        fc = r.get("failed_checks", [])
        if not fc:
            return "vacuous"
        return "discharged"
    if st == "success":
        if r.get("cover_n", 0) >= 1 and r.get("cover_sat", 0) == r.get("cover_n"):
            return "discharged"
        return "vacuous"
    if st == "failed":
        if r.get("undetermined") and not r.get("failed_checks"):
            return "undecided:undetermined"
        if r.get("crash") and not r.get("failed_checks"):
            return "undecided:crash"
        if r.get("failed_checks"):
            for f in r["failed_checks"]:
                if "unwinding assertion" in f["desc"]:
                    return "undecided:unwinding"
                if "uf memo table overflow" in f["desc"]:
                    return "undecided:uf-table-overflow"
            return "refuted"
        if r.get("n_failed", 0) > 0:
            return "refuted"
        return "undecided:failed-without-check"
    return "undecided:%s" % st


# --------------------------------------------------------------------------------------------
def kill_orphan_solvers():
    """Kani's --harness-timeout kills cbmc but leaves its external SMT solver child running
    (observed: orphaned cvc5 processes burning CPU for hours). Kill cvc5 processes that were started
    by CBMC (`cvc5 /tmp/smt2_dec_problem_*`) and have been re-parented to init."""
    try:
        out = subprocess.run(["ps", "-eo", "pid,ppid,cmd"], stdout=subprocess.PIPE, text=True).stdout
        for l in out.splitlines():
            f = l.split(None, 2)
            if len(f) == 3 and f[1] == "1" and f[2].startswith("cvc5 ") and "smt2_dec_problem" in f[2]:
                try:
                    os.kill(int(f[0]), 9)
                except Exception:
                    pass
    except Exception:
        pass


def load_costs():
    p = os.path.join(VERIF, "lib", "costs.json")
    try:
        return json.load(open(p))
    except Exception:
        return {}


def load_known_findings():
    p = os.path.join(VERIF, "known_findings.txt")
    kf, fixed = [], []
    if os.path.exists(p):
        for l in open(p):
            l = l.strip()
            if not l or l.startswith("#"):
                continue
            if l.startswith("fixed:"):
                fixed.append(l)
                continue
            m = re.match(r"finding: property=(\S+) obligation=(\S+) config=(\S+) (.*)", l)
            if m:
                kf.append({"prop": m.group(1), "ob": m.group(2), "config": m.group(3), "what": m.group(4)})
    return kf, fixed


def hexbytes(v):
    return "".join("%02x" % b for b in v) or "00"


class Session:
    """One property check run."""

    def __init__(self, prop, tier):
        self.prop, self.tier = prop, tier
        self.t0 = time.time()
        self.seed = int(os.environ.get("VERIF_SEED", "0") or 0)
        self.scratch = tempfile.mkdtemp(prefix="glamverif_%s_" % prop.lower())
        self.results = []   # per obligation dicts
        self.assumptions = []
        self.notes = []
        self.contracts_total = []
        self.weave_summaries = {}
        self.cmds = []
        self.violations = []
        self.known_hits = []
        self.undecided = []
        self.excluded = []
        self.deferred = []
        self.logs_dir = os.path.join(OUT, "logs", prop)
        shutil.rmtree(self.logs_dir, ignore_errors=True)
        os.makedirs(self.logs_dir, exist_ok=True)

    def cleanup(self):
        kill_orphan_solvers()
        if getattr(self, "keep", False):
            return
        shutil.rmtree(self.scratch, ignore_errors=True)

    # ----------------------------------------------------------------------------------------
    def run_config(self, config, contracts, obs, extra_rust="", verif_extra="", timeout_s=None):
        """Weave + build + verify all obligations for one configuration. Obligations marked `plain`
        are verified in a second crate against an UNWOVEN copy (Kani checks a woven contract at every
        call, which is not wanted where the callee's primitives are replaced by uninterpreted functions)."""
        tier = self.tier
        costs = load_costs()
        kept = []
        for o in obs:
            c = costs.get(o.name[:-7] if o.name.endswith("__split") else o.name)
            if c == "undecided":
                if not o.name.endswith("__split"):
                    self.excluded.append({"ob": o.name, "config": config, "fn": o.fn, "desc": o.desc[:200],
                                          "why": "not decided on the unchanged tree (solver timeout in the thorough tier, or body larger than the uninterpreted-function tables): recorded in lib/costs.json; not claimed"})
                continue
            if isinstance(c, (int, float)):
                o.cost = max(1.0, c)
                if c > 150 and o.tier == "quick" and o.expect == "pass" and not getattr(o, "pin", False):
                    o.tier = "thorough"
                    if not o.name.endswith("__split"):
                        self.deferred.append(o.name)
            kept.append(o)
        obs = [o for o in kept if tier == "thorough" or o.tier == "quick"]
        if getattr(self, "only", None):
            sel = [o for o in obs if re.search(self.only, o.name)]
            need = set(p for o in sel for p in o.stub_verified)
            splits = set(o.split for o in sel if o.split)
            obs = [o for o in obs if o in sel or (o.contract in need) or o.name in splits]
        a = [o for o in obs if not o.plain]
        b = [o for o in obs if o.plain]
        self.groups = getattr(self, "groups", [])
        if a:
            self.groups.append({"config": config, "tag": "", "contracts": contracts, "obs": a, "extra": extra_rust, "vextra": verif_extra, "timeout": timeout_s})
        if b:
            self.groups.append({"config": config, "tag": "_plain", "contracts": [], "obs": b, "extra": extra_rust, "vextra": verif_extra, "timeout": timeout_s})

    def execute(self):
        """Prepare every queued group (weave, worker crates), then run ALL worker crates of all groups
        through one pool of NCPU single-threaded `cargo kani` processes, then classify and run stage 2."""
        groups = getattr(self, "groups", [])
        self.groups = []
        self.crate_of = getattr(self, "crate_of", {})
        total_cost = sum(sum(getattr(o, "cost", 10) for o in g["obs"] if not o.name.endswith("__split") and o.kind != "native") for g in groups) or 1.0
        jobs = []
        for g in groups:
            self._prepare_group(g, total_cost, jobs)
        # pool
        running = []
        pending = sorted(jobs, key=lambda j: -j["cost"])
        while pending or running:
            while pending and len(running) < NCPU:
                j = pending.pop(0)
                j["proc"], j["lf"], j["cmdtxt"] = start_worker(j["crate"], j["config"], j["names"], j["timeout"], j["log"])
                running.append(j)
            time.sleep(1.0)
            still = []
            for j in running:
                if j["proc"].poll() is None:
                    still.append(j)
                else:
                    j["lf"].close()
            if len(still) == len(running) and int(time.time()) % 60 == 0:
                kill_orphan_solvers()
            running = still
        kill_orphan_solvers()
        for g in groups:
            if g.get("ok"):
                self._finish_group(g)

    def _prepare_group(self, g, total_cost, jobs):
        config, tag, contracts, obs, extra_rust, verif_extra = g["config"], g["tag"], g["contracts"], g["obs"], g["extra"], g["vextra"]
        tier = self.tier
        timeout_s = g["timeout"]
        if timeout_s is None:
            timeout_s = int(os.environ.get("VERIF_TIMEOUT", "0")) or (600 if tier == "quick" else 1200)
        g["timeout_s"] = timeout_s
        cdir = os.path.join(self.scratch, config + tag)
        gl = os.path.join(cdir, "glam")
        g["gl"], g["cdir"] = gl, cdir
        weave.copy_repo(gl)
        try:
            manifest = weave.weave(gl, contracts, os.path.join(VERIF, "model", "verif_mod.rs"), verif_extra)
        except LostAnchor as e:
            self.undecided.append({"ob": "*", "config": config, "why": "lost-anchor: %s" % e})
            print("UNDECIDED lost anchor (%s): %s" % (config, e))
            return
        ds = weave.diff_summary(gl)
        self.weave_summaries[config + tag] = ds
        if ds["unexpected"]:
            self.undecided.append({"ob": "*", "config": config, "why": "weave diff not attribute-only: %s" % ds["unexpected"][:3]})
            return
        for c in contracts:
            self.contracts_total.append({"config": config, "fn": c.path, "file": c.file, "woven": c.woven,
                                         "requires": c.requires, "ensures": c.ensures, "modifies": c.modifies})
        natives = [o for o in obs if o.kind == "native"]
        obs = [o for o in obs if o.kind != "native"]
        g["natives"] = natives
        g["obs"] = obs
        stage1 = [o for o in obs if not o.name.endswith("__split") and not o.name.endswith("__full")]
        g["stage1"] = stage1
        g["ok"] = True
        g["jobs"] = []
        if not stage1:
            return
        byn = {o.name: o for o in obs}
        gcost = sum(getattr(o, "cost", 10) for o in stage1)
        W = max(1, min(len(stage1), NCPU, int(round(1.5 * NCPU * gcost / total_cost)) or 1))
        loads = [0.0] * W
        parts = [[] for _ in range(W)]
        for o in sorted(stage1, key=lambda o: -getattr(o, "cost", 10)):
            k = loads.index(min(loads))
            parts[k].append(o)
            loads[k] += getattr(o, "cost", 10)
        bycontract = {o.contract: o for o in stage1 if o.contract}
        for k in range(W):
            hc = os.path.join(cdir, "h%d" % k)
            mine = list(parts[k])
            for o in parts[k]:
                if o.split and o.split in byn:
                    mine.append(byn[o.split])
                fb = getattr(o, "fallback", None)
                if fb and fb in byn:
                    mine.append(byn[fb])
                # Kani insists that a stub_verified target has its proof_for_contract harness in the same
                # crate: compile it here too (it is run only by the worker that owns it)
                for p in o.stub_verified:
                    dep = bycontract.get(p)
                    if dep is not None and dep not in mine:
                        mine.append(dep)
                        if dep.split and dep.split in byn and byn[dep.split] not in mine:
                            mine.append(byn[dep.split])
            gen_crate(hc, "../glam", config, mine, extra_rust)
            for o in mine:
                self.crate_of.setdefault((config + tag, o.name), hc)
            log = os.path.join(self.logs_dir, "%s%s.w%d.stage1.log" % (config, tag, k))
            job = {"crate": hc, "config": config, "names": [o.name for o in parts[k]], "timeout": timeout_s, "log": log, "cost": loads[k]}
            jobs.append(job)
            g["jobs"].append(job)

    def _finish_group(self, g):
        config, tag, obs, stage1, gl, timeout_s = g["config"], g["tag"], g["obs"], g["stage1"], g["gl"], g["timeout_s"]
        if g.get("natives"):
            self.run_natives(config, tag, g["cdir"], g["natives"], g["extra"])
        if not stage1:
            return
        res = {}
        cmdtxt = ""
        for j in g["jobs"]:
            cmdtxt = j.get("cmdtxt", "")
            r1 = parse_old(open(j["log"], errors="replace").read())
            if "__compile_error__" in r1:
                res.setdefault("__compile_error__", r1["__compile_error__"] + "\n(see %s)" % j["log"])
            res.update({k: v for k, v in r1.items() if not k.startswith("__")})
        self.cmds.append("(%s%s, %d worker crates) %s" % (config, tag, len(g["jobs"]), cmdtxt))
        if "__compile_error__" in res:
            self.undecided.append({"ob": "*", "config": config, "why": "build failed: " + res["__compile_error__"][:900]})
            print("UNDECIDED build failed (%s)" % config)
            if not any(k for k in res if not k.startswith("__")):
                return
        byname = {o.name: o for o in obs}
        kf, _ = load_known_findings()
        refuted = []
        for o in stage1:
            r = res.get(o.name)
            verdict = classify(o, r)
            rec = {"ob": o.name, "config": config, "fn": o.fn, "kind": o.kind, "class": o.cls, "solver": o.solver,
                   "desc": o.desc, "time_s": (r or {}).get("time"), "checks": (r or {}).get("n_checks"),
                   "verdict": verdict, "expect": o.expect, "bounded": o.bounded, "clauses": o.clauses or 1,
                   "stubs": [s if isinstance(s, str) else s[0] for s in o.stubs]}
            if o.expect == "refute":  # canary
                rec["canary"] = True
                if verdict == "discharged":
                    rec["verdict"] = "canary-verified"
                    self.undecided.append({"ob": o.name, "config": config, "why": "canary (deliberately false clause) verified: run invalid"})
                elif verdict == "refuted":
                    rec["verdict"] = "canary-refuted"
                else:
                    self.undecided.append({"ob": o.name, "config": config, "why": "canary " + verdict})
                self.results.append(rec)
                continue
            fb = getattr(o, "fallback", None)
            if verdict == "refuted" and fb and fb in byname:
                # fast path (one recorded association order) refuted: try the full disjunction
                hc = self.crate_of[(config + tag, o.name)]
                log = os.path.join(self.logs_dir, "%s%s.%s.fallback.log" % (config, tag, fb))
                pr, lf, _c = start_worker(hc, config, [fb], max(timeout_s, 1200), log)
                pr.wait()
                lf.close()
                kill_orphan_solvers()
                r2 = parse_old(open(log, errors="replace").read()).get(fb)
                v2 = classify(byname[fb], r2)
                rec["fallback"] = {"ob": fb, "verdict": v2, "time_s": (r2 or {}).get("time")}
                if v2 == "discharged":
                    verdict = rec["verdict"] = "discharged"
                    rec["note"] = "matches another allowed association order than the one recorded in lib/trees.json"
                elif v2 == "refuted":
                    r = r2
                    o = byname[fb]
                else:
                    verdict = rec["verdict"] = "undecided:fast-path-refuted-and-full-disjunction-" + v2
            if verdict == "refuted":
                refuted.append((o, rec, r))
            elif verdict != "discharged":
                rec["raw"] = (r or {}).get("raw", [])[-8:]
                self.undecided.append({"ob": o.name, "config": config, "why": verdict})
            self.results.append(rec)
        if refuted:
            # stage 2 (clause naming, counterexample, replay) in parallel
            import concurrent.futures, threading
            self._replay_lock = threading.Lock()
            with concurrent.futures.ThreadPoolExecutor(max_workers=min(8, NCPU)) as ex:
                futs = [ex.submit(self.handle_refuted, o, config, self.crate_of[(config + tag, o.name)], gl, rec, r, kf, byname, min(timeout_s, 300)) for (o, rec, r) in refuted[:24]]
                for f in futs:
                    f.result()
            for (o, rec, r) in refuted[24:]:
                # too many refutations to detail: report them with the stage-1 information only
                self.handle_refuted(o, config, self.crate_of[(config + tag, o.name)], gl, rec, r, kf, byname, 0)

    # ----------------------------------------------------------------------------------------
    def run_natives(self, config, tag, cdir, natives, extra_rust):
        """Bounded stand-ins executed on the REAL code (plain cargo build of the woven copy, attributes
        inert): each obligation body is run `tries` times on inputs drawn from the special-value lattice
        and seeded random bits. Labelled bounded, never counted as proved."""
        nd = os.path.join(cdir, "native")
        gen_crate(nd, "../glam", config, natives, extra_rust)
        open(os.path.join(nd, "src", "main.rs"), "w").write(REPLAY_MAIN)
        env = dict(os.environ)
        env["RUSTFLAGS"] = ("--cfg glam_verif_replay --cap-lints=allow " + CONFIGS[config]["rustflags"]).strip()
        env["CARGO_NET_OFFLINE"] = "true"
        p = subprocess.run(["cargo", "build", "--offline", "--bin", "gv"], cwd=nd, env=env, stdout=subprocess.PIPE, stderr=subprocess.STDOUT, text=True)
        if p.returncode != 0:
            self.undecided.append({"ob": "*native*", "config": config, "why": "native build failed: " + p.stdout[-800:]})
            return
        kf, _ = load_known_findings()
        for o in natives:
            tries = getattr(o, "tries", 2000)
            t0 = time.time()
            try:
                r = subprocess.run([os.path.join(nd, "target", "debug", "gv"), "--search", str(tries), str(self.seed + 1), o.name],
                                   stdout=subprocess.PIPE, stderr=subprocess.STDOUT, text=True, timeout=600)
                out = r.stdout
            except subprocess.TimeoutExpired:
                out = "SEARCH-TIMEOUT"
            rec = {"ob": o.name, "config": config, "fn": o.fn, "kind": "native-bounded", "class": o.cls, "solver": "none (execution of the real code)",
                   "desc": o.desc, "time_s": round(time.time() - t0, 2), "checks": tries, "expect": o.expect, "bounded": o.bounded or ("%d executions" % tries),
                   "clauses": o.clauses or 1, "stubs": []}
            if "SEARCH-NOTHING" in out:
                rec["verdict"] = "discharged"
            elif "SEARCH-FOUND" in out:
                rec["verdict"] = "refuted"
                rec["failed_clauses"] = [l for l in out.splitlines() if l.startswith("FAILED-CLAUSE") or l.startswith("PANICKED")][:5]
                known = [k for k in kf if k["prop"] == self.prop and k["ob"] == o.name and k["config"] in (config, "*")]
                if known:
                    rec["verdict"] = "known-finding"
                    self.known_hits.append({"ob": o.name, "config": config, "what": known[0]["what"]})
                else:
                    rp = os.path.join(OUT, "replays", self.prop)
                    os.makedirs(rp, exist_ok=True)
                    path = os.path.join(rp, "%s.%s.json" % (o.name, config))
                    json.dump({"property": self.prop, "obligation": o.name, "config": config, "function": o.fn, "description": o.desc,
                               "failed_clauses": rec["failed_clauses"], "replay": [{"output": out.strip().splitlines()[-12:], "reproduced": True}],
                               "reproduced_on_real_code": True, "note": "bounded native check: the failing input was found by executing the real code"}, open(path, "w"), indent=1)
                    self.violations.append({"ob": o.name, "config": config, "replay": path, "reproduced": True, "clauses": rec["failed_clauses"][:3]})
            else:
                rec["verdict"] = "undecided:native-run"
                self.undecided.append({"ob": o.name, "config": config, "why": "native run gave no verdict: " + out[-300:]})
            self.results.append(rec)

    # ----------------------------------------------------------------------------------------
    def handle_refuted(self, o, config, hc, gl, rec, r, kf, byname, timeout_s):
        """Stage 2: name the clause, get a counterexample, replay on the real code."""
        target = o
        if o.split and o.split in byname:
            target = byname[o.split]
        log = os.path.join(self.logs_dir, "%s.%s.stage2.log" % (config, target.name))
        if timeout_s > 0:
            r2 = run_kani_single(hc, config, target.name, timeout_s, log)
        else:
            open(log, "w").write("stage 2 skipped (too many refuted obligations in one run)\n")
            r2 = {"checks": [], "playback": []}
        if not [c for c in r2["checks"] if c["status"] == "FAILURE"] and (r or {}).get("failed_checks"):
            r2["checks"] += [{"id": "stage1", "status": "FAILURE", "desc": f["desc"], "loc": "%s:%d in %s" % (f["file"], f["line"], f["fn"])} for f in r["failed_checks"]]
        failed = [c for c in r2["checks"] if c["status"] == "FAILURE"]
        rec["failed_clauses"] = [c["desc"] for c in failed][:20]
        if o.panic:
            # always-panics obligation: what failed is that the point after the call is reachable
            rec["failed_clauses"] = ["always-panics clause: for some input of the violating class the call RETURNS normally (no panic)"] + rec["failed_clauses"][:3]
        rec["failed_locs"] = [c["loc"] for c in failed][:20]
        # replay
        # replay the verifier's counterexample on the real code; where it gave none (SMT back end without a
        # model, stage-2 timeout) or it does not reproduce, the bounded concrete search still runs
        reps = self.replay(target, config, hc, r2.get("playback") or []) if timeout_s > 0 else []
        rec["replay"] = reps
        reproduced = [x for x in reps if x.get("reproduced")]
        for k in kf:
            if k["prop"] == self.prop and k["ob"] == o.name and k["config"] in (config, "*"):
                rec["verdict"] = "known-finding"
                self.known_hits.append({"ob": o.name, "config": config, "what": k["what"]})
                return
        rp = os.path.join(OUT, "replays", self.prop)
        os.makedirs(rp, exist_ok=True)
        path = os.path.join(rp, "%s.%s.json" % (o.name, config))
        json.dump({"property": self.prop, "obligation": o.name, "config": config, "function": o.fn,
                   "description": o.desc, "failed_clauses": rec["failed_clauses"], "failed_locations": rec["failed_locs"],
                   "replay": reps, "reproduced_on_real_code": bool(reproduced),
                   "kani_failed_checks": (r or {}).get("failed_checks"), "kani_log_tail": open(log, errors="replace").read()[-6000:]},
                  open(path, "w"), indent=1)
        self.violations.append({"ob": o.name, "config": config, "replay": path, "reproduced": bool(reproduced),
                                "clauses": rec["failed_clauses"][:3]})

    def replay(self, ob, config, hc, playback):
        """Run the obligation body on the counterexample bytes against the real code (plain cargo,
        real intrinsics, real std), using the woven copy (attributes inert without cfg(kani))."""
        rdir = hc + "_replay"
        with self._replay_lock:
            err = self._build_replay(rdir, config)
        if err:
            return err
        return self._run_replay(rdir, ob, playback)

    def _build_replay(self, rdir, config):
        if not os.path.exists(os.path.join(rdir, "target", "debug", "gv")):
            hc = rdir[:-len("_replay")]
            os.makedirs(rdir, exist_ok=True)
            shutil.copytree(os.path.join(hc, "src"), os.path.join(rdir, "src"), dirs_exist_ok=True)
            shutil.copytree(os.path.join(hc, ".cargo"), os.path.join(rdir, ".cargo"), dirs_exist_ok=True)
            shutil.copy2(os.path.join(hc, "Cargo.toml"), rdir)
            shutil.copy2(os.path.join(hc, "Cargo.lock"), rdir)
            open(os.path.join(rdir, "src", "main.rs"), "w").write(REPLAY_MAIN)
            env = dict(os.environ)
            env["RUSTFLAGS"] = ("--cfg glam_verif_replay --cap-lints=allow " + CONFIGS[config]["rustflags"]).strip()
            env["CARGO_NET_OFFLINE"] = "true"
            p = subprocess.run(["cargo", "build", "--offline", "--bin", "gv"], cwd=rdir, env=env,
                               stdout=subprocess.PIPE, stderr=subprocess.STDOUT, text=True)
            if p.returncode != 0:
                return [{"error": "replay build failed", "log": p.stdout[-3000:]}]
        return None

    def _run_replay(self, rdir, ob, playback):
        out = []
        seen = set()
        for t in playback:
            if t["kind"] == "cover":
                continue
            key = json.dumps(t["vals"])
            if key in seen:
                continue
            seen.add(key)
            args = [hexbytes(v) for v in t["vals"]]
            p = subprocess.run([os.path.join(rdir, "target", "debug", "gv"), ob.name] + args,
                               stdout=subprocess.PIPE, stderr=subprocess.STDOUT, text=True, timeout=120)
            o = p.stdout
            rec = {"kani_check": t["desc"], "bytes": t["vals"], "output": o.strip().splitlines()[-12:]}
            rec["reproduced"] = ("FAILED-CLAUSE" in o or "PANICKED" in o) and "ASSUMPTION-NOT-MET" not in o
            if ob.panic:
                rec["reproduced"] = "PANICKED" not in o and "ASSUMPTION-NOT-MET" not in o
            out.append(rec)
            if len(out) >= 6:
                break
        if not any(x.get("reproduced") for x in out):
            # bounded concrete search on the real code over the special-value lattice + random bits
            cmd = [os.path.join(rdir, "target", "debug", "gv"), "--search", "200000", str(self.seed + 1), ob.name]
            if ob.panic:
                cmd.append("expect-panic")
            try:
                p = subprocess.run(cmd, stdout=subprocess.PIPE, stderr=subprocess.STDOUT, text=True, timeout=300)
                o = p.stdout
            except subprocess.TimeoutExpired:
                o = "SEARCH-TIMEOUT"
            out.append({"kani_check": "bounded concrete search (200000 tries, special-value lattice + random bits) on the real code",
                        "bytes": None, "output": o.strip().splitlines()[-12:], "reproduced": "SEARCH-FOUND" in o})
        return out

    # ----------------------------------------------------------------------------------------
    def finish(self, level_note="", trusted_base=(), extra_cov=None, not_decided=()):
        self.execute()
        if PROBE:
            trees = load_trees()
            for r in self.results:
                m = re.match(r"^(.*)__probe(\d+)$", r["ob"])
                if m and r["verdict"] == "discharged":
                    trees[m.group(1)] = min(int(m.group(2)), trees.get(m.group(1), 99))
            json.dump(trees, open(os.path.join(VERIF, "lib", "trees.json"), "w"), indent=0, sort_keys=True)
            print("probe: lib/trees.json now has %d entries" % len(trees))
        wall = time.time() - self.t0
        real = [r for r in self.results if not r.get("canary")]
        proved = [r for r in real if r["verdict"] == "discharged" and not r["bounded"]]
        bounded = [r for r in real if r["verdict"] == "discharged" and r["bounded"]]
        known = [r for r in real if r["verdict"] == "known-finding"]
        canaries = [r for r in self.results if r.get("canary")]
        n_ob = len(real)
        n_dis = len(proved) + len(bounded) + len(known)
        fns = sorted(set(c["fn"] for c in self.contracts_total))
        samples = []
        for r in real[:3] + real[-2:]:
            samples.append({k: r[k] for k in ("ob", "config", "fn", "kind", "class", "solver", "time_s", "verdict", "desc")})
        by_solver = {}
        for r in real:
            by_solver.setdefault(r["solver"], [0, 0.0])
            by_solver[r["solver"]][0] += 1
            by_solver[r["solver"]][1] += r["time_s"] or 0.0
        cov = {
            "obligations": n_ob,
            "discharged": n_dis,
            "proved_unbounded": len(proved),
            "bounded_standins": len(bounded),
            "bounded_detail": sorted(set("%s: %s" % (r["ob"], r["bounded"]) for r in bounded)),
            "known_findings_matched": self.known_hits,
            "clauses": sum(r["clauses"] for r in real),
            "undecided": self.undecided,
            "functions_under_woven_contract": len(fns),
            "functions_under_woven_contract_list": fns,
            "functions_exercised": sorted(set(r["fn"] for r in real if r["fn"]))[:400],
            "checker_cmd": "; ".join(self.cmds) or "cargo kani (not run)",
            "backends": {k: {"obligations": v[0], "solver_time_s": round(v[1], 2)} for k, v in by_solver.items()},
            "solver_time_s": round(sum((r["time_s"] or 0.0) for r in self.results), 2),
            "trusted_base": list(trusted_base),
            "canaries": [{"ob": r["ob"], "config": r["config"], "verdict": r["verdict"]} for r in canaries],
            "weave": self.weave_summaries,
            "configs": sorted(set(r["config"] for r in real)),
            "not_decided_clauses": list(not_decided),
            "excluded_undecided": self.excluded,
            "deferred_to_thorough": sorted(set(self.deferred)),
            "samples": samples,
            "per_obligation": [{k: r.get(k) for k in ("ob", "config", "fn", "kind", "class", "solver", "time_s", "checks", "verdict", "bounded", "clauses")} for r in self.results],
            "explanation": level_note,
        }
        if extra_cov:
            cov.update(extra_cov)
        ev = {"property_id": self.prop, "tier": self.tier, "seed": self.seed, "level": "proof", "coverage": cov,
              "assumptions": list(self.assumptions), "wall_s": round(wall, 2), "violations": len(self.violations)}
        os.makedirs(os.path.join(OUT, "evidence"), exist_ok=True)
        json.dump(ev, open(os.path.join(OUT, "evidence", "%s.json" % self.prop), "w"), indent=1)
        for k in self.known_hits:
            print("KNOWN-FINDING: property=%s %s [obligation %s, config %s]" % (self.prop, k["what"], k["ob"], k["config"]))
        for v in self.violations:
            tail = "" if v["reproduced"] else " no-failing-input-found"
            print("obligation %s (%s) refuted: %s" % (v["ob"], v["config"], "; ".join(v["clauses"])))
            print("VIOLATION property=%s replay=%s%s" % (self.prop, v["replay"], tail))
        print("%s %s: %d obligations, %d discharged (%d unbounded proofs, %d bounded stand-ins, %d known findings), "
              "%d undecided, %d violations, %d canaries refuted, wall %.0fs" % (
                  self.prop, self.tier, n_ob, n_dis, len(proved), len(bounded), len(known), len(self.undecided),
                  len(self.violations), sum(1 for c in canaries if c["verdict"] == "canary-refuted"), wall))
        for u in self.undecided[:20]:
            print("UNDECIDED %s (%s): %s" % (u["ob"], u["config"], u["why"]))
        self.cleanup()
        if self.violations:
            return 1
        if self.undecided or n_ob == 0:
            return 2
        return 0
