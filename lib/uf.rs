// Uninterpreted-function stubs (Ackermann encoding with a small memo table) for the library
// transcendental functions glam reaches through `glam::f32::math::*` / `glam::f64::math::*` and
// `_mm_sqrt_ps`. Under Kani a miss allocates a fresh symbolic value (optionally restricted by the
// per-function MODE), a hit returns the stored one: equal argument bits => equal result. Whatever
// is proved holds for every function of that shape, in particular the real one. Outside Kani
// (replay) these are the real functions.
#![allow(dead_code, static_mut_refs)]


/// Ackermann memo table with CONCRETE slot indices: call number k always writes slot k; its value is
/// the value of the first earlier call with the same key bits, else the fresh symbolic value.
pub struct Memo<const N: usize> {
    pub calls: usize,
    pub k0: [u64; N],
    pub k1: [u64; N],
    pub k2: [u64; N],
    pub v0: [u64; N],
    pub v1: [u64; N],
}

impl<const N: usize> Memo<N> {
    pub const fn new() -> Self {
        Memo { calls: 0, k0: [0; N], k1: [0; N], k2: [0; N], v0: [0; N], v1: [0; N] }
    }
    #[inline(always)]
    pub fn find(&self, a: u64, b: u64) -> Option<u64> {
        let i = self.calls;
        let mut j = 0;
        while j < N {
            if j < i && self.k0[j] == a && self.k1[j] == b {
                return Some(self.v0[j]);
            }
            j += 1;
        }
        None
    }
    #[inline(always)]
    pub fn get(&mut self, a: u64, b: u64, fresh: (u64, u64)) -> (u64, u64) {
        self.get3(a, b, 0, fresh)
    }
    /// Ackermann table with two selectable encodings (static `ACK_ASSUME`, set concretely at the start of a harness):
    ///  * default, value encoding: "first earlier call with the same key wins" (ite chain).  Where a key
    ///    comparison folds to `true` syntactically (code and spec pass the very same SSA value) the result
    ///    IS the earlier result symbol, so REAL arithmetic applied to it downstream is shared structurally;
    ///  * ACK_ASSUME, constraint encoding: the result is the fresh symbolic value and key_j == key_i ==>
    ///    v_j == v_i is ASSUMED for every earlier call.  Any real function satisfies the constraints
    ///    (choose fresh = f(key)), so nothing is excluded.  Used where ALL arithmetic is uninterpreted: the
    ///    SAT back end then only sees implications between equalities (measured 10x faster than ite chains).
    #[inline(always)]
    pub fn get3(&mut self, a: u64, b: u64, c: u64, fresh: (u64, u64)) -> (u64, u64) {
        let i = self.calls;
        #[cfg(kani)]
        kani::assert(i < N, "uf memo table overflow");
        #[cfg(not(kani))]
        assert!(i < N, "uf memo table overflow");
        let mut v = fresh;
        if unsafe { ACK_ASSUME } {
            let mut j = 0;
            while j < N && j < i {
                let hit = self.k0[j] == a && self.k1[j] == b && self.k2[j] == c;
                #[cfg(kani)]
                kani::assume(!hit || (self.v0[j] == v.0 && self.v1[j] == v.1));
                let _ = hit;
                j += 1;
            }
        } else {
            // reverse order: the earliest matching entry is applied last and wins
            let mut j = N;
            while j > 0 {
                j -= 1;
                if j < i && self.k0[j] == a && self.k1[j] == b && self.k2[j] == c {
                    v = (self.v0[j], self.v1[j]);
                }
            }
        }
        self.k0[i] = a;
        self.k1[i] = b;
        self.k2[i] = c;
        self.v0[i] = v.0;
        self.v1[i] = v.1;
        self.calls = i + 1;
        v
    }
}
pub static mut ACK_ASSUME: bool = false;

/// Same table, but the VALUE is stored as the float itself (no float -> bits -> float round trip: under
/// the SMT back end every such conversion is a fresh bit-vector tied to the float by an equation, which
/// hides the fact that code and spec received the very same result; measured: lemmas that divide by
/// an uninterpreted sqrt time out with the bits form and take seconds with this one).
pub trait FBits: Copy { fn fb(self) -> u64; }
impl FBits for f32 { #[inline(always)] fn fb(self) -> u64 { self.to_bits() as u64 } }
impl FBits for f64 { #[inline(always)] fn fb(self) -> u64 { self.to_bits() } }
pub struct MemoF<T: FBits, const N: usize> {
    pub calls: usize,
    pub k0: [u64; N],
    pub k1: [u64; N],
    pub k2: [u64; N],
    pub v: [T; N],
}
impl<T: FBits, const N: usize> MemoF<T, N> {
    pub const fn new(z: T) -> Self {
        MemoF { calls: 0, k0: [0; N], k1: [0; N], k2: [0; N], v: [z; N] }
    }
    #[inline(always)]
    pub fn get3(&mut self, a: u64, b: u64, c: u64, fresh: T) -> T {
        let i = self.calls;
        #[cfg(kani)]
        kani::assert(i < N, "uf memo table overflow");
        #[cfg(not(kani))]
        assert!(i < N, "uf memo table overflow");
        let mut v = fresh;
        if unsafe { ACK_ASSUME } {
            let mut j = 0;
            while j < N && j < i {
                let hit = self.k0[j] == a && self.k1[j] == b && self.k2[j] == c;
                #[cfg(kani)]
                kani::assume(!hit || self.v[j].fb() == v.fb());
                let _ = hit;
                j += 1;
            }
        } else {
            let mut j = N;
            while j > 0 {
                j -= 1;
                if j < i && self.k0[j] == a && self.k1[j] == b && self.k2[j] == c {
                    v = self.v[j];
                }
            }
        }
        self.k0[i] = a;
        self.k1[i] = b;
        self.k2[i] = c;
        self.v[i] = v;
        self.calls = i + 1;
        v
    }
}

/// key of a float argument: its bit pattern, with every NaN mapped to one canonical key (results are
/// compared as IEEE values, NaN ~ NaN; the SMT back end leaves the bits of a NaN unspecified)
#[inline(always)]
pub fn k32(x: f32) -> u64 { if x != x { 0x7fc0_0000 } else { x.to_bits() as u64 } }
#[inline(always)]
pub fn k64(x: f64) -> u64 { if x != x { 0x7ff8_0000_0000_0000 } else { x.to_bits() } }
pub trait Key { fn key(self) -> u64; }
impl Key for f32 { #[inline(always)] fn key(self) -> u64 { k32(self) } }
impl Key for f64 { #[inline(always)] fn key(self) -> u64 { k64(self) } }

/// value modes for fresh results
pub const ANY: u8 = 0; // any bit pattern
pub const LAT: u8 = 1; // one of -1, 0, 1
pub const POW2: u8 = 2; // one of 1, 2, 4 (exact reciprocals, products stay exact)
pub const FINITE: u8 = 3; // any finite value

#[cfg(kani)]
#[inline(always)]
fn fresh32(mode: u8) -> f32 {
    match mode {
        LAT => {
            let i: i8 = kani::any();
            kani::assume(i >= -1 && i <= 1);
            i as f32
        }
        POW2 => {
            let i: u8 = kani::any();
            kani::assume(i <= 2);
            if i == 0 { 1.0 } else if i == 1 { 2.0 } else { 4.0 }
        }
        FINITE => {
            let v: f32 = kani::any();
            kani::assume(v.is_finite());
            v
        }
        _ => kani::any(),
    }
}
#[cfg(kani)]
#[inline(always)]
fn fresh64(mode: u8) -> f64 {
    match mode {
        LAT => {
            let i: i8 = kani::any();
            kani::assume(i >= -1 && i <= 1);
            i as f64
        }
        POW2 => {
            let i: u8 = kani::any();
            kani::assume(i <= 2);
            if i == 0 { 1.0 } else if i == 1 { 2.0 } else { 4.0 }
        }
        FINITE => {
            let v: f64 = kani::any();
            kani::assume(v.is_finite());
            v
        }
        _ => kani::any(),
    }
}

macro_rules! uf1 {
    ($name:ident, $t:ty, $fresh:ident, $tab:ident, $mode:ident, $real:expr) => { uf1!($name, $t, $fresh, $tab, $mode, $real, 16); };
    ($name:ident, $t:ty, $fresh:ident, $tab:ident, $mode:ident, $real:expr, $n:literal) => {
        pub static mut $tab: MemoF<$t, $n> = MemoF::new(0.0);
        pub static mut $mode: u8 = ANY;
        pub fn $name(x: $t) -> $t {
            #[cfg(kani)]
            unsafe {
                let k = Key::key(x);
                let r = $fresh($mode);
                $tab.get3(k, 0, 0, r)
            }
            #[cfg(not(kani))]
            {
                let f: fn($t) -> $t = $real;
                f(x)
            }
        }
    };
}
macro_rules! uf2 {
    ($name:ident, $t:ty, $fresh:ident, $tab:ident, $mode:ident, $real:expr) => { uf2!($name, $t, $fresh, $tab, $mode, $real, 16); };
    ($name:ident, $t:ty, $fresh:ident, $tab:ident, $mode:ident, $real:expr, $n:literal) => {
        pub static mut $tab: Memo<$n> = Memo::new();
        pub static mut $mode: u8 = ANY;
        pub fn $name(x: $t, y: $t) -> $t {
            #[cfg(kani)]
            unsafe {
                let (k0, k1) = (Key::key(x), Key::key(y));
                let r = $fresh($mode);
                let v = $tab.get(k0, k1, (r.to_bits() as u64, 0));
                <$t>::from_bits(v.0 as _)
            }
            #[cfg(not(kani))]
            {
                let f: fn($t, $t) -> $t = $real;
                f(x, y)
            }
        }
    };
}
macro_rules! uf2c {
    ($name:ident, $t:ty, $fresh:ident, $tab:ident, $mode:ident, $real:expr, $n:literal) => {
        pub static mut $tab: Memo<$n> = Memo::new();
        pub static mut $mode: u8 = ANY;
        pub fn $name(x: $t, y: $t) -> $t {
            #[cfg(kani)]
            unsafe {
                let (a, b) = (Key::key(x), Key::key(y));
                let (k0, k1) = if a <= b { (a, b) } else { (b, a) };
                let r = $fresh($mode);
                let v = $tab.get(k0, k1, (r.to_bits() as u64, 0));
                <$t>::from_bits(v.0 as _)
            }
            #[cfg(not(kani))]
            {
                let f: fn($t, $t) -> $t = $real;
                f(x, y)
            }
        }
    };
}

uf1!(sqrt_uf_f32, f32, fresh32, SQRT32_TAB, SQRT32_MODE, |x| x.sqrt(), 24);
uf1!(sqrt_uf_f64, f64, fresh64, SQRT64_TAB, SQRT64_MODE, |x| x.sqrt(), 24);
/// when set, sqrt is pinned to its exact value on the points 0, 1/4, 1, 4, 16 (true facts about
/// every correctly rounded sqrt) and uninterpreted elsewhere
pub static mut SQRT_PINNED: bool = false;
pub fn sqrt_f32(x: f32) -> f32 {
    #[cfg(kani)]
    unsafe {
        if SQRT_PINNED {
            if x == 0.0 { return x; }
            if x == 0.25 { return 0.5; }
            if x == 1.0 { return 1.0; }
            if x == 4.0 { return 2.0; }
            if x == 16.0 { return 4.0; }
        }
    }
    sqrt_uf_f32(x)
}
pub fn sqrt_f64(x: f64) -> f64 {
    #[cfg(kani)]
    unsafe {
        if SQRT_PINNED {
            if x == 0.0 { return x; }
            if x == 0.25 { return 0.5; }
            if x == 1.0 { return 1.0; }
            if x == 4.0 { return 2.0; }
            if x == 16.0 { return 4.0; }
        }
    }
    sqrt_uf_f64(x)
}
uf1!(sin_f32, f32, fresh32, SIN32_TAB, SIN32_MODE, |x| x.sin());
uf1!(sin_f64, f64, fresh64, SIN64_TAB, SIN64_MODE, |x| x.sin());
uf1!(tan_f32, f32, fresh32, TAN32_TAB, TAN32_MODE, |x| x.tan());
uf1!(tan_f64, f64, fresh64, TAN64_TAB, TAN64_MODE, |x| x.tan());
uf1!(exp_f32, f32, fresh32, EXP32_TAB, EXP32_MODE, |x| x.exp());
uf1!(exp_f64, f64, fresh64, EXP64_TAB, EXP64_MODE, |x| x.exp());
uf1!(acos_f32, f32, fresh32, ACOS32_TAB, ACOS32_MODE, |x| x.acos());
uf1!(acos_f64, f64, fresh64, ACOS64_TAB, ACOS64_MODE, |x| x.acos());
uf2!(atan2_f32, f32, fresh32, ATAN232_TAB, ATAN232_MODE, |x, y| x.atan2(y));
uf2!(atan2_f64, f64, fresh64, ATAN264_TAB, ATAN264_MODE, |x, y| x.atan2(y));
uf2!(powf_f32, f32, fresh32, POW32_TAB, POW32_MODE, |x, y| x.powf(y));
uf2!(powf_f64, f64, fresh64, POW64_TAB, POW64_MODE, |x, y| x.powf(y));
uf2!(div_euclid_f32, f32, fresh32, DE32_TAB, DE32_MODE, |x, y| x.div_euclid(y));
uf2!(div_euclid_f64, f64, fresh64, DE64_TAB, DE64_MODE, |x, y| x.div_euclid(y));
uf2!(rem_euclid_f32, f32, fresh32, RE32_TAB, RE32_MODE, |x, y| x.rem_euclid(y));
uf2!(rem_euclid_f64, f64, fresh64, RE64_TAB, RE64_MODE, |x, y| x.rem_euclid(y));

// sin_cos: one table, result pair. PARITY (when enabled) keys on |x| and returns (-s, c) for a
// negative argument: the odd/even symmetry of every libm sin/cos (assumption A5).
pub static mut SINCOS32_TAB: Memo<8> = Memo::new();
pub static mut SINCOS32_MODE: u8 = ANY;
pub static mut SINCOS_PARITY: bool = false;
pub fn sin_cos_f32(x: f32) -> (f32, f32) {
    #[cfg(kani)]
    unsafe {
        if x != x || x.is_infinite() {
            return (f32::NAN, f32::NAN); // true fact about every sin/cos: NaN for NaN and infinite arguments
        }
        let bits = if x != x { 0x7fc0_0000u32 } else { x.to_bits() };
        let neg = SINCOS_PARITY && (bits >> 31) == 1;
        let k = if SINCOS_PARITY { (bits & 0x7fff_ffff) as u64 } else { bits as u64 };
        let s = fresh32(SINCOS32_MODE);
        let c = fresh32(SINCOS32_MODE);
        let v = SINCOS32_TAB.get(k, 0, (s.to_bits() as u64, c.to_bits() as u64));
        let (s, c) = (f32::from_bits(v.0 as u32), f32::from_bits(v.1 as u32));
        if neg { (-s, c) } else { (s, c) }
    }
    #[cfg(not(kani))]
    {
        x.sin_cos()
    }
}
pub static mut SINCOS64_TAB: Memo<8> = Memo::new();
pub static mut SINCOS64_MODE: u8 = ANY;
pub fn sin_cos_f64(x: f64) -> (f64, f64) {
    #[cfg(kani)]
    unsafe {
        if x != x || x.is_infinite() {
            return (f64::NAN, f64::NAN);
        }
        let bits = if x != x { 0x7ff8_0000_0000_0000u64 } else { x.to_bits() };
        let neg = SINCOS_PARITY && (bits >> 63) == 1;
        let k = if SINCOS_PARITY { bits & 0x7fff_ffff_ffff_ffff } else { bits };
        let s = fresh64(SINCOS64_MODE);
        let c = fresh64(SINCOS64_MODE);
        let v = SINCOS64_TAB.get(k, 0, (s.to_bits(), c.to_bits()));
        let (s, c) = (f64::from_bits(v.0), f64::from_bits(v.1));
        if neg { (-s, c) } else { (s, c) }
    }
    #[cfg(not(kani))]
    {
        x.sin_cos()
    }
}

// Memo wrapper round the REAL `%`: no abstraction, only sharing of the (expensive) remainder
// circuit between the code under proof and the spec (DESIGN §2.1).
pub static mut REM32_TAB: Memo<16> = Memo::new();
pub fn rem_f32(a: f32, b: f32) -> f32 {
    #[cfg(kani)]
    unsafe {
        let (k0, k1) = (a.to_bits() as u64, b.to_bits() as u64);
        // the real remainder is only computed when no earlier call had the same operands
        if let Some(v) = REM32_TAB.find(k0, k1) {
            return f32::from_bits(v as u32);
        }
        let r = a % b;
        REM32_TAB.get(k0, k1, (r.to_bits() as u64, 0));
        r
    }
    #[cfg(not(kani))]
    {
        a % b
    }
}
pub static mut REM64_TAB: Memo<16> = Memo::new();
pub fn rem_f64(a: f64, b: f64) -> f64 {
    #[cfg(kani)]
    unsafe {
        let (k0, k1) = (a.to_bits(), b.to_bits());
        if let Some(v) = REM64_TAB.find(k0, k1) {
            return f64::from_bits(v);
        }
        let r = a % b;
        REM64_TAB.get(k0, k1, (r.to_bits(), 0));
        r
    }
    #[cfg(not(kani))]
    {
        a % b
    }
}

// ---- uninterpreted primitive arithmetic (forwarding lemmas: "for ANY function in place of + - * / %") ----
// add and mul are keyed on the UNORDERED pair of operands (IEEE addition and multiplication are
// commutative as values; NaN operands share one key)
uf2c!(uadd_f32, f32, fresh32, UADD32_TAB, UADD32_MODE, |x, y| x + y, 80);
uf2!(usub_f32, f32, fresh32, USUB32_TAB, USUB32_MODE, |x, y| x - y, 80);
uf2c!(umul_f32, f32, fresh32, UMUL32_TAB, UMUL32_MODE, |x, y| x * y, 80);
uf2!(udiv_f32, f32, fresh32, UDIV32_TAB, UDIV32_MODE, |x, y| x / y, 80);
uf2!(urem_f32, f32, fresh32, UREM32_TAB, UREM32_MODE, |x, y| x % y, 40);
uf2c!(uadd_f64, f64, fresh64, UADD64_TAB, UADD64_MODE, |x, y| x + y, 80);
uf2!(usub_f64, f64, fresh64, USUB64_TAB, USUB64_MODE, |x, y| x - y, 80);
uf2c!(umul_f64, f64, fresh64, UMUL64_TAB, UMUL64_MODE, |x, y| x * y, 80);
uf2!(udiv_f64, f64, fresh64, UDIV64_TAB, UDIV64_MODE, |x, y| x / y, 80);
uf2!(urem_f64, f64, fresh64, UREM64_TAB, UREM64_MODE, |x, y| x % y, 40);
macro_rules! assign_form {
    ($($name:ident = $base:ident : $t:ty),*) => {$(
        pub fn $name(a: &mut $t, b: $t) { *a = $base(*a, b); }
    )*};
}
assign_form!(uadd_assign_f32 = uadd_f32: f32, usub_assign_f32 = usub_f32: f32, umul_assign_f32 = umul_f32: f32,
             udiv_assign_f32 = udiv_f32: f32, urem_assign_f32 = urem_f32: f32,
             uadd_assign_f64 = uadd_f64: f64, usub_assign_f64 = usub_f64: f64, umul_assign_f64 = umul_f64: f64,
             udiv_assign_f64 = udiv_f64: f64, urem_assign_f64 = urem_f64: f64,
             rem_assign_f32 = rem_f32: f32, rem_assign_f64 = rem_f64: f64);

macro_rules! uf3 {
    ($name:ident, $t:ty, $fresh:ident, $tab:ident, $mode:ident, $real:expr) => { uf3!($name, $t, $fresh, $tab, $mode, $real, 16); };
    ($name:ident, $t:ty, $fresh:ident, $tab:ident, $mode:ident, $real:expr, $n:literal) => {
        pub static mut $tab: Memo<$n> = Memo::new();
        pub static mut $mode: u8 = ANY;
        pub fn $name(x: $t, y: $t, z: $t) -> $t {
            #[cfg(kani)]
            unsafe {
                let r = $fresh($mode);
                let v = $tab.get3(Key::key(x), Key::key(y), Key::key(z), (r.to_bits() as u64, 0));
                <$t>::from_bits(v.0 as _)
            }
            #[cfg(not(kani))]
            {
                let f: fn($t, $t, $t) -> $t = $real;
                f(x, y, z)
            }
        }
    };
}
uf3!(mul_add_f32, f32, fresh32, FMA32_TAB, FMA32_MODE, |x, y, z| x.mul_add(y, z));
uf3!(mul_add_f64, f64, fresh64, FMA64_TAB, FMA64_MODE, |x, y, z| x.mul_add(y, z));
uf1!(ufloor_f32, f32, fresh32, UFLOOR32_TAB, UFLOOR32_MODE, |x| x.floor());

// ---- table-free over-approximations ("havoc"): the result is ANY value of the type, independent of
// the arguments.  Used by the totality obligations (C18), where no functional consistency is needed:
// whatever holds for every result value holds for the real function.  Outside Kani: the real function.
macro_rules! hv {
    ($($name:ident ( $($a:ident),* ) : $t:ty = $real:expr;)*) => {$(
        pub fn $name($($a: $t),*) -> $t {
            #[cfg(kani)]
            { $(let _ = $a;)* kani::any() }
            #[cfg(not(kani))]
            { let f: fn($($a: $t),*) -> $t = $real; f($($a),*) }
        }
    )*};
}
hv! {
    hv_sqrt_f32(x): f32 = |x| x.sqrt(); hv_sqrt_f64(x): f64 = |x| x.sqrt();
    hv_sin_f32(x): f32 = |x| x.sin(); hv_sin_f64(x): f64 = |x| x.sin();
    hv_tan_f32(x): f32 = |x| x.tan(); hv_tan_f64(x): f64 = |x| x.tan();
    hv_exp_f32(x): f32 = |x| x.exp(); hv_exp_f64(x): f64 = |x| x.exp();
    hv_atan2_f32(y, x): f32 = |y, x| y.atan2(x); hv_atan2_f64(y, x): f64 = |y, x| y.atan2(x);
    hv_powf_f32(x, y): f32 = |x, y| x.powf(y); hv_powf_f64(x, y): f64 = |x, y| x.powf(y);
    hv_div_euclid_f32(x, y): f32 = |x, y| x.div_euclid(y); hv_div_euclid_f64(x, y): f64 = |x, y| x.div_euclid(y);
    hv_rem_euclid_f32(x, y): f32 = |x, y| x.rem_euclid(y); hv_rem_euclid_f64(x, y): f64 = |x, y| x.rem_euclid(y);
    hv_mul_add_f32(x, y, z): f32 = |x, y, z| x.mul_add(y, z); hv_mul_add_f64(x, y, z): f64 = |x, y, z| x.mul_add(y, z);
}
pub fn hv_sin_cos_f32(x: f32) -> (f32, f32) {
    #[cfg(kani)]
    { let _ = x; (kani::any(), kani::any()) }
    #[cfg(not(kani))]
    { x.sin_cos() }
}
pub fn hv_sin_cos_f64(x: f64) -> (f64, f64) {
    #[cfg(kani)]
    { let _ = x; (kani::any(), kani::any()) }
    #[cfg(not(kani))]
    { x.sin_cos() }
}
