// Harness-side spec helpers (not woven; used by lemma harnesses only).
#![allow(dead_code)]
