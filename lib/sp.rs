// Harness-side specification vocabulary for the exact-lattice obligations (DESIGN 3.5): symbolic
// small integers, and the mathematical polynomials (determinant, adjugate, matrix products, Hamilton
// product, rotation by a quaternion, quaternion -> matrix) evaluated in i16.  This is SPEC: written
// as the textbook definitions, independent of glam's formulas.
#![allow(dead_code)]
use crate::vk;

/// symbolic integer in [-b, b]
#[inline(always)]
pub fn lat(b: i8) -> i16 {
    let i: i8 = vk::any();
    vk::assume(i >= -b && i <= b);
    i as i16
}
macro_rules! lat_arr {
    ($($name:ident: $n:literal [$($i:tt)*]),*) => {$(
        #[inline(always)]
        pub fn $name(b: i8) -> [i16; $n] { [$({ let _ = $i; lat(b) }),*] }
    )*};
}
lat_arr!(lat2: 2 [0 1], lat3: 3 [0 1 2], lat4: 4 [0 1 2 3], lat6: 6 [0 1 2 3 4 5], lat9: 9 [0 1 2 3 4 5 6 7 8],
         lat12: 12 [0 1 2 3 4 5 6 7 8 9 10 11], lat16: 16 [0 1 2 3 4 5 6 7 8 9 10 11 12 13 14 15]);

macro_rules! to_float {
    ($($name:ident: $t:ty, $n:literal [$($i:tt)*]),*) => {$(
        #[inline(always)]
        pub fn $name(a: [i16; $n]) -> [$t; $n] { [$(a[$i] as $t),*] }
    )*};
}
to_float!(f32x2: f32, 2 [0 1], f32x3: f32, 3 [0 1 2], f32x4: f32, 4 [0 1 2 3], f32x6: f32, 6 [0 1 2 3 4 5], f32x9: f32, 9 [0 1 2 3 4 5 6 7 8],
          f32x12: f32, 12 [0 1 2 3 4 5 6 7 8 9 10 11], f32x16: f32, 16 [0 1 2 3 4 5 6 7 8 9 10 11 12 13 14 15],
          f64x2: f64, 2 [0 1], f64x3: f64, 3 [0 1 2], f64x4: f64, 4 [0 1 2 3], f64x6: f64, 6 [0 1 2 3 4 5], f64x9: f64, 9 [0 1 2 3 4 5 6 7 8],
          f64x12: f64, 12 [0 1 2 3 4 5 6 7 8 9 10 11], f64x16: f64, 16 [0 1 2 3 4 5 6 7 8 9 10 11 12 13 14 15]);

/// the float is exactly this integer
#[inline(always)]
pub fn eqi32(f: f32, i: i16) -> bool { f == (i as f32) }
#[inline(always)]
pub fn eqi64(f: f64, i: i16) -> bool { f == (i as f64) }

// ---- column-major integer matrices: entry (r, c) of an n x n matrix is a[c * n + r] ----
#[inline(always)]
pub fn det2(a: [i16; 4]) -> i16 { a[0] * a[3] - a[2] * a[1] }
#[inline(always)]
pub fn det3(a: [i16; 9]) -> i16 {
    // Laplace expansion along the first row: sum_c (-1)^c * a(0,c) * minor(0,c)
    let e = |r: usize, c: usize| a[c * 3 + r];
    e(0, 0) * (e(1, 1) * e(2, 2) - e(1, 2) * e(2, 1)) - e(0, 1) * (e(1, 0) * e(2, 2) - e(1, 2) * e(2, 0))
        + e(0, 2) * (e(1, 0) * e(2, 1) - e(1, 1) * e(2, 0))
}
/// 3x3 minor of a 4x4 matrix: delete row `dr`, column `dc`
#[inline(always)]
pub fn minor4(a: [i16; 16], dr: usize, dc: usize) -> i16 {
    let mut m = [0i16; 9];
    let mut c = 0;
    let mut cc = 0;
    while c < 4 {
        if c != dc {
            let mut r = 0;
            let mut rr = 0;
            while r < 4 {
                if r != dr {
                    m[cc * 3 + rr] = a[c * 4 + r];
                    rr += 1;
                }
                r += 1;
            }
            cc += 1;
        }
        c += 1;
    }
    det3(m)
}
#[inline(always)]
pub fn det4(a: [i16; 16]) -> i16 {
    a[0] * minor4(a, 0, 0) - a[4] * minor4(a, 0, 1) + a[8] * minor4(a, 0, 2) - a[12] * minor4(a, 0, 3)
}
/// adjugate (transpose of the cofactor matrix): adj(A) * A == det(A) * I
#[inline(always)]
pub fn adj2(a: [i16; 4]) -> [i16; 4] { [a[3], -a[1], -a[2], a[0]] }
#[inline(always)]
pub fn adj3(a: [i16; 9]) -> [i16; 9] {
    let e = |r: usize, c: usize| a[c * 3 + r];
    // cofactor C(r,c) = (-1)^(r+c) * minor(r,c); adj(r,c) = C(c,r)
    let cof = |r: usize, c: usize| -> i16 {
        let (r0, r1) = if r == 0 { (1, 2) } else if r == 1 { (0, 2) } else { (0, 1) };
        let (c0, c1) = if c == 0 { (1, 2) } else if c == 1 { (0, 2) } else { (0, 1) };
        let m = e(r0, c0) * e(r1, c1) - e(r0, c1) * e(r1, c0);
        if (r + c) % 2 == 0 { m } else { -m }
    };
    [cof(0, 0), cof(0, 1), cof(0, 2), cof(1, 0), cof(1, 1), cof(1, 2), cof(2, 0), cof(2, 1), cof(2, 2)]
}
#[inline(always)]
pub fn adj4_entry(a: [i16; 16], r: usize, c: usize) -> i16 {
    // adj(r,c) = cofactor(c,r)
    let m = minor4(a, c, r);
    if (r + c) % 2 == 0 { m } else { -m }
}
macro_rules! mat_vec {
    ($name:ident, $n:literal, $nn:literal) => {
        #[inline(always)]
        pub fn $name(a: [i16; $nn], v: [i16; $n]) -> [i16; $n] {
            let mut out = [0i16; $n];
            let mut r = 0;
            while r < $n {
                let mut c = 0;
                while c < $n {
                    out[r] += a[c * $n + r] * v[c];
                    c += 1;
                }
                r += 1;
            }
            out
        }
    };
}
mat_vec!(mv2, 2, 4);
mat_vec!(mv3, 3, 9);
mat_vec!(mv4, 4, 16);
macro_rules! mat_mat {
    ($name:ident, $n:literal, $nn:literal) => {
        #[inline(always)]
        pub fn $name(a: [i16; $nn], b: [i16; $nn]) -> [i16; $nn] {
            let mut out = [0i16; $nn];
            let mut c = 0;
            while c < $n {
                let mut r = 0;
                while r < $n {
                    let mut k = 0;
                    while k < $n {
                        out[c * $n + r] += a[k * $n + r] * b[c * $n + k];
                        k += 1;
                    }
                    r += 1;
                }
                c += 1;
            }
            out
        }
    };
}
mat_mat!(mm2, 2, 4);
mat_mat!(mm3, 3, 9);
mat_mat!(mm4, 4, 16);

// ---- quaternions (x, y, z, w) ----
/// Hamilton product a * b
#[inline(always)]
pub fn hamilton(a: [i16; 4], b: [i16; 4]) -> [i16; 4] {
    let (ax, ay, az, aw) = (a[0], a[1], a[2], a[3]);
    let (bx, by, bz, bw) = (b[0], b[1], b[2], b[3]);
    [
        aw * bx + ax * bw + ay * bz - az * by,
        aw * by - ax * bz + ay * bw + az * bx,
        aw * bz + ax * by - ay * bx + az * bw,
        aw * bw - ax * bx - ay * by - az * bz,
    ]
}
#[inline(always)]
pub fn qconj(a: [i16; 4]) -> [i16; 4] { [-a[0], -a[1], -a[2], a[3]] }
/// vector part of q * (v, 0) * conj(q)   (== |q|^2 times the rotation of v by q)
#[inline(always)]
pub fn qrot(q: [i16; 4], v: [i16; 3]) -> [i16; 3] {
    let r = hamilton(hamilton(q, [v[0], v[1], v[2], 0]), qconj(q));
    [r[0], r[1], r[2]]
}
/// column-major 3x3 matrix M(q) with M(q) v == qrot(q, v) for all v (entries are the standard
/// quadratic forms; for a unit quaternion this is the rotation matrix)
#[inline(always)]
pub fn qmat(q: [i16; 4]) -> [i16; 9] {
    let c0 = qrot(q, [1, 0, 0]);
    let c1 = qrot(q, [0, 1, 0]);
    let c2 = qrot(q, [0, 0, 1]);
    [c0[0], c0[1], c0[2], c1[0], c1[1], c1[2], c2[0], c2[1], c2[2]]
}
#[inline(always)]
pub fn norm2(q: [i16; 4]) -> i16 { q[0] * q[0] + q[1] * q[1] + q[2] * q[2] + q[3] * q[3] }
#[inline(always)]
pub fn cross3(a: [i16; 3], b: [i16; 3]) -> [i16; 3] {
    [a[1] * b[2] - a[2] * b[1], a[2] * b[0] - a[0] * b[2], a[0] * b[1] - a[1] * b[0]]
}
#[inline(always)]
pub fn dot3(a: [i16; 3], b: [i16; 3]) -> i16 { a[0] * b[0] + a[1] * b[1] + a[2] * b[2] }
