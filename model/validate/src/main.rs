// Differential validation of /verif/model/sse.rs against the real SSE/SSE2 instructions of this CPU
// over the special-value lattice (all pairs) plus seeded random bit patterns. Run by setup.sh and
// recorded as assumption A2; this is testing of the trusted model, never counted as proof.
#![allow(dead_code)]
use core::arch::x86_64::*;
#[path = "../../sse.rs"]
mod sse;
mod uf {
    pub fn sqrt_f32(x: f32) -> f32 { x.sqrt() }
    pub fn hv_sqrt_f32(x: f32) -> f32 { x.sqrt() }
    pub fn uadd_f32(a: f32, b: f32) -> f32 { a + b }
    pub fn usub_f32(a: f32, b: f32) -> f32 { a - b }
    pub fn umul_f32(a: f32, b: f32) -> f32 { a * b }
    pub fn udiv_f32(a: f32, b: f32) -> f32 { a / b }
    pub fn ufloor_f32(a: f32) -> f32 { a.floor() }
    pub fn mul_add_f32(a: f32, b: f32, c: f32) -> f32 { a.mul_add(b, c) }
}

const SPECIAL: [u32; 40] = [
    0x0000_0000, 0x8000_0000, 0x3f80_0000, 0xbf80_0000, 0x3f00_0000, 0xbf00_0000, 0x7f80_0000, 0xff80_0000,
    0x7fc0_0000, 0xffc0_0000, 0x7f80_0001, 0xffbf_ffff, 0x0000_0001, 0x8000_0001, 0x007f_ffff, 0x807f_ffff,
    0x0080_0000, 0x8080_0000, 0x7f7f_ffff, 0xff7f_ffff, 0x4b00_0000, 0xcb00_0000, 0x4aff_ffff, 0x4b00_0001,
    0x4f00_0000, 0xcf00_0000, 0x4eff_ffff, 0xcf00_0001, 0x4f80_0000, 0x3fc0_0000, 0x4020_0000, 0xc020_0000,
    0x3eff_ffff, 0x3f00_0001, 0x4380_4000, 0xc380_4000, 0x3f7f_ffff, 0x3f80_0001, 0x5f00_0000, 0xdf00_0000,
];

fn bits(v: __m128) -> [u32; 4] { unsafe { core::mem::transmute(v) } }
fn bitsi(v: __m128i) -> [u32; 4] { unsafe { core::mem::transmute(v) } }
fn mk(a: [u32; 4]) -> __m128 { unsafe { core::mem::transmute(a) } }
fn mki(a: [u32; 4]) -> __m128i { unsafe { core::mem::transmute(a) } }

// NaN payload/sign of arithmetic results is not modelled bit-exactly (x86 returns the first operand's
// quieted payload; Rust leaves it unspecified): results are compared as IEEE values, NaN ~ NaN.
fn same_val(a: [u32; 4], b: [u32; 4]) -> bool {
    (0..4).all(|i| {
        let (x, y) = (f32::from_bits(a[i]), f32::from_bits(b[i]));
        a[i] == b[i] || (x.is_nan() && y.is_nan())
    })
}

fn main() {
    let mut n: u64 = 0;
    let mut bad: u64 = 0;
    let mut s: u64 = std::env::args().nth(1).and_then(|x| x.parse().ok()).unwrap_or(0x1234_5678_9abc_def1);
    let mut rnd = || { s ^= s << 13; s ^= s >> 7; s ^= s << 17; s };
    let mut pairs: Vec<([u32; 4], [u32; 4])> = Vec::new();
    for &a in SPECIAL.iter() {
        for &b in SPECIAL.iter() {
            pairs.push(([a, b, a, b], [b, b, a, a]));
        }
    }
    for _ in 0..200_000 {
        let r = [rnd(), rnd(), rnd(), rnd()];
        let a = [r[0] as u32, (r[0] >> 32) as u32, r[1] as u32, (r[1] >> 32) as u32];
        let mut b = [r[2] as u32, (r[2] >> 32) as u32, r[3] as u32, (r[3] >> 32) as u32];
        if rnd() & 3 == 0 { b[0] = a[0]; b[2] = a[2] ^ 0x8000_0000; }
        if rnd() & 7 == 0 { b[1] = SPECIAL[(rnd() % 40) as usize]; }
        pairs.push((a, b));
    }
    macro_rules! bin {
        ($real:ident, $model:path, exact) => {{
            for (a, b) in pairs.iter() {
                let r = bits(unsafe { $real(mk(*a), mk(*b)) });
                let m = bits($model(mk(*a), mk(*b)));
                n += 1;
                if r != m { bad += 1; if bad < 20 { println!("MISMATCH {} {:x?} {:x?}: real {:x?} model {:x?}", stringify!($real), a, b, r, m); } }
            }
        }};
        ($real:ident, $model:path, value) => {{
            for (a, b) in pairs.iter() {
                let r = bits(unsafe { $real(mk(*a), mk(*b)) });
                let m = bits($model(mk(*a), mk(*b)));
                n += 1;
                if !same_val(r, m) { bad += 1; if bad < 20 { println!("MISMATCH {} {:x?} {:x?}: real {:x?} model {:x?}", stringify!($real), a, b, r, m); } }
            }
        }};
    }
    bin!(_mm_add_ps, sse::mm_add_ps, value);
    bin!(_mm_sub_ps, sse::mm_sub_ps, value);
    bin!(_mm_mul_ps, sse::mm_mul_ps, value);
    bin!(_mm_div_ps, sse::mm_div_ps, value);
    bin!(_mm_add_ss, sse::mm_add_ss, value);
    bin!(_mm_min_ps, sse::mm_min_ps, exact);
    bin!(_mm_max_ps, sse::mm_max_ps, exact);
    bin!(_mm_cmpeq_ps, sse::mm_cmpeq_ps, exact);
    bin!(_mm_cmpneq_ps, sse::mm_cmpneq_ps, exact);
    bin!(_mm_cmplt_ps, sse::mm_cmplt_ps, exact);
    bin!(_mm_cmple_ps, sse::mm_cmple_ps, exact);
    bin!(_mm_cmpgt_ps, sse::mm_cmpgt_ps, exact);
    bin!(_mm_cmpge_ps, sse::mm_cmpge_ps, exact);
    bin!(_mm_cmpunord_ps, sse::mm_cmpunord_ps, exact);
    bin!(_mm_cmpord_ps, sse::mm_cmpord_ps, exact);
    bin!(_mm_cmpnlt_ps, sse::mm_cmpnlt_ps, exact);
    bin!(_mm_cmpnle_ps, sse::mm_cmpnle_ps, exact);
    bin!(_mm_cmpngt_ps, sse::mm_cmpngt_ps, exact);
    bin!(_mm_cmpnge_ps, sse::mm_cmpnge_ps, exact);
    for (a, b) in pairs.iter() {
        n += 4;
        let (r, m) = (unsafe { _mm_movemask_ps(mk(*a)) }, sse::mm_movemask_ps(mk(*a)));
        if r != m { bad += 1; println!("MISMATCH movemask {:x?}", a); }
        let (r, m) = (bitsi(unsafe { _mm_cvttps_epi32(mk(*a)) }), bitsi(sse::mm_cvttps_epi32(mk(*a))));
        if r != m { bad += 1; if bad < 20 { println!("MISMATCH cvttps {:x?}: real {:x?} model {:x?}", a, r, m); } }
        let (r, m) = (bits(unsafe { _mm_cvtepi32_ps(mki(*a)) }), bits(sse::mm_cvtepi32_ps(mki(*a))));
        if r != m { bad += 1; if bad < 20 { println!("MISMATCH cvtepi32 {:x?}: real {:x?} model {:x?}", a, r, m); } }
        let (r, m) = (bitsi(unsafe { _mm_cmplt_epi32(mki(*a), mki(*b)) }), bitsi(sse::mm_cmplt_epi32(mki(*a), mki(*b))));
        if r != m { bad += 1; if bad < 20 { println!("MISMATCH cmplt_epi32 {:x?} {:x?}", a, b); } }
        let (r, m) = (bits(unsafe { _mm_sqrt_ps(mk(*a)) }), bits(sse::mm_sqrt_ps(mk(*a))));
        n += 1;
        if !same_val(r, m) { bad += 1; if bad < 20 { println!("MISMATCH sqrt {:x?}: real {:x?} model {:x?}", a, r, m); } }
    }
    println!("validate_sse: {} comparisons, {} mismatches", n, bad);
    if bad != 0 { std::process::exit(1); }
}
