// Lane-wise Rust model of the SSE/SSE2 intrinsics that Kani 0.68 cannot translate
// (`llvm.x86.*` calls) or translates with spurious integer-style overflow checks on floats.
// TRUSTED (assumption A2 in DESIGN.md): validated on every `setup` by differential execution
// against the real instructions on this CPU (`/verif/model/validate_sse`), never counted as proof.
//
// Only used under Kani, through `#[kani::stub(core::arch::x86_64::_mm_xxx, crate::sse::mm_xxx)]`.
#![allow(dead_code)]
use core::arch::x86_64::{__m128, __m128i};

#[inline(always)]
fn f(a: __m128) -> [f32; 4] {
    unsafe { core::mem::transmute(a) }
}
#[inline(always)]
fn m(a: [f32; 4]) -> __m128 {
    unsafe { core::mem::transmute(a) }
}
#[inline(always)]
fn i(a: __m128i) -> [i32; 4] {
    unsafe { core::mem::transmute(a) }
}
#[inline(always)]
fn mi(a: [i32; 4]) -> __m128i {
    unsafe { core::mem::transmute(a) }
}
#[inline(always)]
fn mask(b: bool) -> f32 {
    f32::from_bits(if b { 0xffff_ffff } else { 0 })
}

macro_rules! lanewise2 {
    ($name:ident, |$a:ident, $b:ident| $e:expr) => {
        pub fn $name(a: __m128, b: __m128) -> __m128 {
            let (a, b) = (f(a), f(b));
            let g = |$a: f32, $b: f32| -> f32 { $e };
            m([g(a[0], b[0]), g(a[1], b[1]), g(a[2], b[2]), g(a[3], b[3])])
        }
    };
}

lanewise2!(mm_add_ps, |a, b| a + b);
lanewise2!(mm_sub_ps, |a, b| a - b);
lanewise2!(mm_mul_ps, |a, b| a * b);
lanewise2!(mm_div_ps, |a, b| a / b);
// MINPS/MAXPS: if either operand is NaN, or both are zero, the SECOND operand is returned.
lanewise2!(mm_min_ps, |a, b| if a < b { a } else { b });
lanewise2!(mm_max_ps, |a, b| if a > b { a } else { b });
lanewise2!(mm_cmpeq_ps, |a, b| mask(a == b));
lanewise2!(mm_cmpneq_ps, |a, b| mask(a != b));
lanewise2!(mm_cmplt_ps, |a, b| mask(a < b));
lanewise2!(mm_cmple_ps, |a, b| mask(a <= b));
lanewise2!(mm_cmpgt_ps, |a, b| mask(a > b));
lanewise2!(mm_cmpge_ps, |a, b| mask(a >= b));
lanewise2!(mm_cmpunord_ps, |a, b| mask(a != a || b != b));
// negated / ordered predicates (not used by glam today; modelled so that a change to one of them is decided, not undecided)
lanewise2!(mm_cmpord_ps, |a, b| mask(a == a && b == b));
lanewise2!(mm_cmpnlt_ps, |a, b| mask(!(a < b)));
lanewise2!(mm_cmpnle_ps, |a, b| mask(!(a <= b)));
lanewise2!(mm_cmpngt_ps, |a, b| mask(!(a > b)));
lanewise2!(mm_cmpnge_ps, |a, b| mask(!(a >= b)));

pub fn mm_add_ss(a: __m128, b: __m128) -> __m128 {
    let (a, b) = (f(a), f(b));
    m([a[0] + b[0], a[1], a[2], a[3]])
}

pub fn mm_movemask_ps(a: __m128) -> i32 {
    let a = f(a);
    let s = |x: f32| (x.to_bits() >> 31) as i32;
    s(a[0]) | (s(a[1]) << 1) | (s(a[2]) << 2) | (s(a[3]) << 3)
}

// CVTTPS2DQ: truncate toward zero; NaN and out-of-range give the "integer indefinite" 0x8000_0000.
pub fn mm_cvttps_epi32(a: __m128) -> __m128i {
    let a = f(a);
    let g = |x: f32| -> i32 {
        if x != x || x >= 2147483648.0 || x < -2147483648.0 {
            i32::MIN
        } else {
            x as i32
        }
    };
    mi([g(a[0]), g(a[1]), g(a[2]), g(a[3])])
}

// CVTDQ2PS: int -> float, round to nearest even (Rust `as`).
pub fn mm_cvtepi32_ps(a: __m128i) -> __m128 {
    let a = i(a);
    m([a[0] as f32, a[1] as f32, a[2] as f32, a[3] as f32])
}

pub fn mm_cmplt_epi32(a: __m128i, b: __m128i) -> __m128i {
    let (a, b) = (i(a), i(b));
    let g = |x: i32, y: i32| if x < y { -1 } else { 0 };
    mi([g(a[0], b[0]), g(a[1], b[1]), g(a[2], b[2]), g(a[3], b[3])])
}

// SQRTPS: per-lane correctly rounded square root. The scalar sqrt itself is an uninterpreted
// function supplied by the harness crate (`crate::uf::sqrt_f32`), so the same symbol is shared
// with every spec that mentions `sqrt`.
pub fn mm_sqrt_ps(a: __m128) -> __m128 {
    let a = f(a);
    m([
        crate::uf::sqrt_f32(a[0]),
        crate::uf::sqrt_f32(a[1]),
        crate::uf::sqrt_f32(a[2]),
        crate::uf::sqrt_f32(a[3]),
    ])
}

// table-free over-approximation of _mm_sqrt_ps (stub set `sse_hv`, totality obligations)
pub fn hv_sqrt_ps(a: __m128) -> __m128 {
    let a = f(a);
    m([crate::uf::hv_sqrt_f32(a[0]), crate::uf::hv_sqrt_f32(a[1]), crate::uf::hv_sqrt_f32(a[2]), crate::uf::hv_sqrt_f32(a[3])])
}

// ---- uninterpreted versions of the four arithmetic intrinsics (stub set `sse_uf`, forwarding lemmas) ----
macro_rules! lanewise_uf {
    ($name:ident, $f:path) => {
        pub fn $name(a: __m128, b: __m128) -> __m128 {
            let (a, b) = (f(a), f(b));
            m([$f(a[0], b[0]), $f(a[1], b[1]), $f(a[2], b[2]), $f(a[3], b[3])])
        }
    };
}
lanewise_uf!(uf_add_ps, crate::uf::uadd_f32);
lanewise_uf!(uf_sub_ps, crate::uf::usub_f32);
lanewise_uf!(uf_mul_ps, crate::uf::umul_f32);
lanewise_uf!(uf_div_ps, crate::uf::udiv_f32);
pub fn uf_add_ss(a: __m128, b: __m128) -> __m128 {
    let (a, b) = (f(a), f(b));
    m([crate::uf::uadd_f32(a[0], b[0]), a[1], a[2], a[3]])
}

// uninterpreted stand-in for glam::sse2::m128_floor (forwarding lemma of the SSE2 `%`)
pub unsafe fn uf_m128_floor(a: __m128) -> __m128 {
    let a = f(a);
    m([crate::uf::ufloor_f32(a[0]), crate::uf::ufloor_f32(a[1]), crate::uf::ufloor_f32(a[2]), crate::uf::ufloor_f32(a[3])])
}

// FMA (only reachable when the crate is compiled with +fma): per-lane fused multiply-add, the same
// uninterpreted symbol as the scalar `math::mul_add` shim
pub fn mm_fmadd_ps(a: __m128, b: __m128, c: __m128) -> __m128 {
    let (a, b, c) = (f(a), f(b), f(c));
    m([crate::uf::mul_add_f32(a[0], b[0], c[0]), crate::uf::mul_add_f32(a[1], b[1], c[1]), crate::uf::mul_add_f32(a[2], b[2], c[2]), crate::uf::mul_add_f32(a[3], b[3], c[3])])
}
