// Woven into the scratch copy of glam as `src/__verif.rs` (never committed to /repo).
// Spec vocabulary used by the contract attributes and by the harness crate, plus `kani::Arbitrary`
// impls for glam types (needed by `stub_verified`). Everything here is specification, not code
// under verification.
#![allow(dead_code, missing_docs, clippy::all)]

/// IEEE value relation of C01: equal as values (-0 == +0) or both NaN.
#[inline(always)]
pub fn leq32(a: f32, b: f32) -> bool {
    a == b || (a != a && b != b)
}
#[inline(always)]
pub fn leq64(a: f64, b: f64) -> bool {
    a == b || (a != a && b != b)
}
#[inline(always)]
pub fn beq32(a: f32, b: f32) -> bool {
    a.to_bits() == b.to_bits()
}
#[inline(always)]
pub fn beq64(a: f64, b: f64) -> bool {
    a.to_bits() == b.to_bits()
}

macro_rules! arr_rel {
    ($name:ident, $t:ty, $rel:ident, $n:literal, [$($i:literal),*]) => {
        #[inline(always)]
        pub fn $name(a: [$t; $n], b: [$t; $n]) -> bool {
            true $(&& $rel(a[$i], b[$i]))*
        }
    };
}
arr_rel!(leq32x2, f32, leq32, 2, [0, 1]);
arr_rel!(leq32x3, f32, leq32, 3, [0, 1, 2]);
arr_rel!(leq32x4, f32, leq32, 4, [0, 1, 2, 3]);
arr_rel!(leq64x2, f64, leq64, 2, [0, 1]);
arr_rel!(leq64x3, f64, leq64, 3, [0, 1, 2]);
arr_rel!(leq64x4, f64, leq64, 4, [0, 1, 2, 3]);
arr_rel!(beq32x2, f32, beq32, 2, [0, 1]);
arr_rel!(beq32x3, f32, beq32, 3, [0, 1, 2]);
arr_rel!(beq32x4, f32, beq32, 4, [0, 1, 2, 3]);
arr_rel!(beq64x2, f64, beq64, 2, [0, 1]);
arr_rel!(beq64x3, f64, beq64, 3, [0, 1, 2]);
arr_rel!(beq64x4, f64, beq64, 4, [0, 1, 2, 3]);

/// lane-wise map helpers for specs
#[inline(always)]
pub fn map2<T: Copy, U>(a: [T; 2], f: impl Fn(T) -> U) -> [U; 2] {
    [f(a[0]), f(a[1])]
}
#[inline(always)]
pub fn map3<T: Copy, U>(a: [T; 3], f: impl Fn(T) -> U) -> [U; 3] {
    [f(a[0]), f(a[1]), f(a[2])]
}
#[inline(always)]
pub fn map4<T: Copy, U>(a: [T; 4], f: impl Fn(T) -> U) -> [U; 4] {
    [f(a[0]), f(a[1]), f(a[2]), f(a[3])]
}
#[inline(always)]
pub fn zip2<T: Copy, S: Copy, U>(a: [T; 2], b: [S; 2], f: impl Fn(T, S) -> U) -> [U; 2] {
    [f(a[0], b[0]), f(a[1], b[1])]
}
#[inline(always)]
pub fn zip3<T: Copy, S: Copy, U>(a: [T; 3], b: [S; 3], f: impl Fn(T, S) -> U) -> [U; 3] {
    [f(a[0], b[0]), f(a[1], b[1]), f(a[2], b[2])]
}
#[inline(always)]
pub fn zip4<T: Copy, S: Copy, U>(a: [T; 4], b: [S; 4], f: impl Fn(T, S) -> U) -> [U; 4] {
    [f(a[0], b[0]), f(a[1], b[1]), f(a[2], b[2]), f(a[3], b[3])]
}

// ---- math shim access for specs (the shim itself is stubbed by an uninterpreted function in the
// harness, so code and spec share one symbol) ----
#[inline(always)]
pub fn m_exp32(x: f32) -> f32 { crate::f32::math::exp(x) }
#[inline(always)]
pub fn m_powf32(x: f32, n: f32) -> f32 { crate::f32::math::powf(x, n) }
#[inline(always)]
pub fn m_div_euclid32(a: f32, b: f32) -> f32 { crate::f32::math::div_euclid(a, b) }
#[inline(always)]
pub fn m_rem_euclid32(a: f32, b: f32) -> f32 { crate::f32::math::rem_euclid(a, b) }
#[inline(always)]
pub fn m_mul_add32(a: f32, b: f32, c: f32) -> f32 { crate::f32::math::mul_add(a, b, c) }
#[inline(always)]
pub fn m_mul_add64(a: f64, b: f64, c: f64) -> f64 { crate::f64::math::mul_add(a, b, c) }
#[inline(always)]
pub fn m_sqrt32(x: f32) -> f32 { crate::f32::math::sqrt(x) }
#[inline(always)]
pub fn m_sin_cos32(x: f32) -> (f32, f32) { crate::f32::math::sin_cos(x) }
#[inline(always)]
pub fn m_exp64(x: f64) -> f64 { crate::f64::math::exp(x) }
#[inline(always)]
pub fn m_powf64(x: f64, n: f64) -> f64 { crate::f64::math::powf(x, n) }
#[inline(always)]
pub fn m_div_euclid64(a: f64, b: f64) -> f64 { crate::f64::math::div_euclid(a, b) }
#[inline(always)]
pub fn m_rem_euclid64(a: f64, b: f64) -> f64 { crate::f64::math::rem_euclid(a, b) }
#[inline(always)]
pub fn m_sqrt64(x: f64) -> f64 { crate::f64::math::sqrt(x) }
#[inline(always)]
pub fn m_sin_cos64(x: f64) -> (f64, f64) { crate::f64::math::sin_cos(x) }

// ---- boolean-lane helpers ----
#[inline(always)]
pub fn bm2(b: [bool; 2]) -> u32 { (b[0] as u32) | ((b[1] as u32) << 1) }
#[inline(always)]
pub fn bm3(b: [bool; 3]) -> u32 { (b[0] as u32) | ((b[1] as u32) << 1) | ((b[2] as u32) << 2) }
#[inline(always)]
pub fn bm4(b: [bool; 4]) -> u32 {
    (b[0] as u32) | ((b[1] as u32) << 1) | ((b[2] as u32) << 2) | ((b[3] as u32) << 3)
}
#[inline(always)]
pub fn all2(b: [bool; 2]) -> bool { b[0] && b[1] }
#[inline(always)]
pub fn all3(b: [bool; 3]) -> bool { b[0] && b[1] && b[2] }
#[inline(always)]
pub fn all4(b: [bool; 4]) -> bool { b[0] && b[1] && b[2] && b[3] }
#[inline(always)]
pub fn any2(b: [bool; 2]) -> bool { b[0] || b[1] }
#[inline(always)]
pub fn any3(b: [bool; 3]) -> bool { b[0] || b[1] || b[2] }
#[inline(always)]
pub fn any4(b: [bool; 4]) -> bool { b[0] || b[1] || b[2] || b[3] }

macro_rules! pos_specs {
    ($minp:ident, $maxp:ident, $n:literal, [$($i:literal),*]) => {
        /// `r` is the index of the FIRST minimum lane
        #[inline(always)]
        pub fn $minp<T: PartialOrd + Copy>(a: [T; $n], r: usize) -> bool {
            r < $n $(&& (a[r] <= a[$i]) && ($i >= r || a[$i] > a[r]))*
        }
        #[inline(always)]
        pub fn $maxp<T: PartialOrd + Copy>(a: [T; $n], r: usize) -> bool {
            r < $n $(&& (a[r] >= a[$i]) && ($i >= r || a[$i] < a[r]))*
        }
    };
}
pos_specs!(is_min_pos2, is_max_pos2, 2, [0, 1]);
pos_specs!(is_min_pos3, is_max_pos3, 3, [0, 1, 2]);
pos_specs!(is_min_pos4, is_max_pos4, 4, [0, 1, 2, 3]);

macro_rules! nonan {
    ($name:ident, $t:ty, $n:literal, [$($i:literal),*]) => {
        #[inline(always)]
        pub fn $name(a: [$t; $n]) -> bool { true $(&& a[$i] == a[$i])* }
    };
}
nonan!(nonan32x2, f32, 2, [0, 1]);
nonan!(nonan32x3, f32, 3, [0, 1, 2]);
nonan!(nonan32x4, f32, 4, [0, 1, 2, 3]);
nonan!(nonan64x2, f64, 2, [0, 1]);
nonan!(nonan64x3, f64, 3, [0, 1, 2]);
nonan!(nonan64x4, f64, 4, [0, 1, 2, 3]);

// ---- kani::Arbitrary for glam types (needed by stub_verified: the havoc'd return value) ----
#[cfg(kani)]
mod arb {
    use crate::*;
    macro_rules! arb_from_array {
        ($($t:ident),*) => {$(
            impl kani::Arbitrary for $t {
                fn any() -> Self { <$t>::from_array(kani::any()) }
            }
        )*};
    }
    arb_from_array!(Vec2, Vec3, Vec4, DVec2, DVec3, DVec4, Quat, DQuat);
    impl kani::Arbitrary for Vec3A {
        fn any() -> Self { Vec3A::from_vec4(Vec4::from_array(kani::any())) }
    }
    impl kani::Arbitrary for Mat2 {
        fn any() -> Self { Mat2::from_cols_array(&kani::any()) }
    }
    impl kani::Arbitrary for DMat2 {
        fn any() -> Self { DMat2::from_cols_array(&kani::any()) }
    }
    impl kani::Arbitrary for Mat3 {
        fn any() -> Self { Mat3::from_cols(kani::any(), kani::any(), kani::any()) }
    }
    impl kani::Arbitrary for DMat3 {
        fn any() -> Self { DMat3::from_cols(kani::any(), kani::any(), kani::any()) }
    }
    impl kani::Arbitrary for Mat3A {
        fn any() -> Self { Mat3A::from_cols(kani::any(), kani::any(), kani::any()) }
    }
    impl kani::Arbitrary for Mat4 {
        fn any() -> Self { Mat4::from_cols(kani::any(), kani::any(), kani::any(), kani::any()) }
    }
    impl kani::Arbitrary for DMat4 {
        fn any() -> Self { DMat4::from_cols(kani::any(), kani::any(), kani::any(), kani::any()) }
    }
}

// ---- sums of single-rounded terms in ANY association order (tree_in, DESIGN 3.3) ----
macro_rules! sum_trees {
    ($s2:ident, $s3:ident, $s4:ident, $t:ty, $leq:ident) => {
        #[inline(always)]
        pub fn $s2(r: $t, a: $t, b: $t) -> bool { $leq(r, a + b) }
        #[inline(always)]
        pub fn $s3(r: $t, a: $t, b: $t, c: $t) -> bool {
            $leq(r, (a + b) + c) || $leq(r, a + (b + c)) || $leq(r, (a + c) + b)
        }
        #[inline(always)]
        pub fn $s4(r: $t, a: $t, b: $t, c: $t, d: $t) -> bool {
            // 12 caterpillar trees ((p+q)+s)+u and 3 balanced trees (p+q)+(s+u)
            $leq(r, ((a + b) + c) + d) || $leq(r, ((a + b) + d) + c) || $leq(r, ((a + c) + b) + d) || $leq(r, ((a + c) + d) + b)
                || $leq(r, ((a + d) + b) + c) || $leq(r, ((a + d) + c) + b) || $leq(r, ((b + c) + a) + d) || $leq(r, ((b + c) + d) + a)
                || $leq(r, ((b + d) + a) + c) || $leq(r, ((b + d) + c) + a) || $leq(r, ((c + d) + a) + b) || $leq(r, ((c + d) + b) + a)
                || $leq(r, (a + b) + (c + d)) || $leq(r, (a + c) + (b + d)) || $leq(r, (a + d) + (b + c))
        }
    };
}
sum_trees!(sum2_32, sum3_32, sum4_32, f32, leq32);
sum_trees!(sum2_64, sum3_64, sum4_64, f64, leq64);

// ---- products of lanes in any association order ----
macro_rules! prod_trees {
    ($p2:ident, $p3:ident, $p4:ident, $t:ty, $leq:ident) => {
        #[inline(always)]
        pub fn $p2(r: $t, a: $t, b: $t) -> bool { $leq(r, a * b) }
        #[inline(always)]
        pub fn $p3(r: $t, a: $t, b: $t, c: $t) -> bool {
            $leq(r, (a * b) * c) || $leq(r, a * (b * c)) || $leq(r, (a * c) * b)
        }
        #[inline(always)]
        pub fn $p4(r: $t, a: $t, b: $t, c: $t, d: $t) -> bool {
            $leq(r, ((a * b) * c) * d) || $leq(r, ((a * b) * d) * c) || $leq(r, ((a * c) * b) * d) || $leq(r, ((a * c) * d) * b)
                || $leq(r, ((a * d) * b) * c) || $leq(r, ((a * d) * c) * b) || $leq(r, ((b * c) * a) * d) || $leq(r, ((b * c) * d) * a)
                || $leq(r, ((b * d) * a) * c) || $leq(r, ((b * d) * c) * a) || $leq(r, ((c * d) * a) * b) || $leq(r, ((c * d) * b) * a)
                || $leq(r, (a * b) * (c * d)) || $leq(r, (a * c) * (b * d)) || $leq(r, (a * d) * (b * c))
        }
    };
}
prod_trees!(prod2_32, prod3_32, prod4_32, f32, leq32);
prod_trees!(prod2_64, prod3_64, prod4_64, f64, leq64);
