#!/usr/bin/env python3
"""Run a registered check against a seeded change: apply seeded/<id>/patch.diff to /repo, run the
check, undo the patch straight afterwards.  usage: tools/seeded.py <dir-under-seeded> [--prop Cxx] [--only regex] [--tier quick]"""
import sys, os, subprocess, json, time
V = os.path.dirname(os.path.dirname(os.path.abspath(__file__)))
sid = sys.argv[1]
args = sys.argv[2:]
prop = sid[:3]
only = None
tier = "quick"
i = 0
while i < len(args):
    if args[i] == "--prop": prop = args[i + 1]; i += 2
    elif args[i] == "--only": only = args[i + 1]; i += 2
    elif args[i] == "--tier": tier = args[i + 1]; i += 2
    else: i += 1
d = os.path.join(V, "seeded", sid)
env = dict(os.environ)
cmd = [os.path.join(V, "check"), prop, "--tier", tier] + (["--only", only] if only else [])
t0 = time.time()
if "--worktree" in args:
    # development mode: a scratch worktree of /repo's HEAD with the patch applied, so that other checks can
    # keep running against /repo itself; outputs go to a scratch directory
    wt = "/tmp/seedwt_%s_%s" % (sid, prop)
    subprocess.run(["git", "-C", "/repo", "worktree", "remove", "--force", wt], stdout=subprocess.DEVNULL, stderr=subprocess.DEVNULL)
    subprocess.run(["git", "-C", "/repo", "worktree", "add", "-q", wt, "HEAD"], check=True)
    subprocess.run(["git", "-C", wt, "apply", os.path.join(d, "patch.diff")], check=True)
    import shutil
    if not os.path.exists(os.path.join(wt, "Cargo.lock")):
        shutil.copy2("/repo/Cargo.lock", os.path.join(wt, "Cargo.lock"))
    env["VERIF_REPO"] = wt
    env["VERIF_OUT"] = "/tmp/seedout_%s_%s" % (sid, prop)
    try:
        p = subprocess.run(cmd, cwd=V, env=env, stdout=subprocess.PIPE, stderr=subprocess.STDOUT, text=True)
    finally:
        subprocess.run(["git", "-C", "/repo", "worktree", "remove", "--force", wt])
else:
    st = subprocess.run(["git", "-C", "/repo", "status", "--porcelain", "--untracked-files=no"], stdout=subprocess.PIPE, text=True).stdout.strip()
    if st:
        print("refusing: /repo has uncommitted changes:\n" + st); sys.exit(3)
    subprocess.run(["git", "-C", "/repo", "apply", os.path.join(d, "patch.diff")], check=True)
    # evidence / logs / replays of a run against a seeded change never overwrite the committed ones
    env["VERIF_OUT"] = "/tmp/seedout_%s_%s" % (sid, prop)
    try:
        p = subprocess.run(cmd, cwd=V, env=env, stdout=subprocess.PIPE, stderr=subprocess.STDOUT, text=True)
    finally:
        subprocess.run(["git", "-C", "/repo", "checkout", "--", "."], check=True)
out = p.stdout
viol = [l for l in out.splitlines() if l.startswith("VIOLATION") or l.startswith("obligation ")]
res = {"check": " ".join(cmd[-4:]) if only else "./check %s --tier %s" % (prop, tier), "exit": p.returncode, "wall_s": round(time.time() - t0, 1),
       "caught": p.returncode == 1 and any(l.startswith("VIOLATION") for l in out.splitlines()), "violation_lines": viol[:12], "tail": out.strip().splitlines()[-6:]}
import re, shutil
for l in out.splitlines():
    m = re.match(r"^VIOLATION property=\S+ replay=(\S+)", l)
    if m and os.path.exists(m.group(1)):
        shutil.copy2(m.group(1), os.path.join(d, "replay_%s.json" % prop))
        res["replay_copy"] = "seeded/%s/replay_%s.json" % (sid, prop)
        break
res["mode"] = "scratch worktree (VERIF_REPO)" if "--worktree" in args else "applied to /repo, reverted afterwards"
json.dump(res, open(os.path.join(d, "result_%s.json" % prop), "w"), indent=1)
print(json.dumps(res, indent=1))
