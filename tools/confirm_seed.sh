#!/bin/bash
# usage: tools/confirm_seed.sh <worktree> <seeded-id>
# Confirms a candidate seeded change produced in <worktree> (patch applied there, tests/mut_demo.rs present):
# demo fails with the change, passes without it, the existing suite passes with it. Stores patch, demo, confirm.txt.
set -u
WT=$1; ID=$2
V=$(cd "$(dirname "$0")/.." && pwd)
D=$V/seeded/$ID
mkdir -p "$D"
cd "$WT" || exit 3
git diff -- src > "$D/patch.diff"
cp tests/mut_demo.rs "$D/demo.rs"
[ -s "$D/patch.diff" ] || { echo "empty patch"; exit 3; }
W=$(cargo test --offline --test mut_demo 2>&1 | grep -E "^test result" | head -1)
git apply -R "$D/patch.diff"
WO=$(cargo test --offline --test mut_demo 2>&1 | grep -E "^test result" | head -1)
git apply "$D/patch.diff"
mv tests/mut_demo.rs /tmp/mut_demo_$ID.rs
N=$(cargo test --offline --no-fail-fast 2>&1 | grep -E "^test result|^error" | grep -vc "test result: ok")
mv /tmp/mut_demo_$ID.rs tests/mut_demo.rs
{
echo "with-change (): $W"
echo "without-change (): $WO"
echo "existing-suite-non-ok-lines-with-change: $N"
} | tee "$D/confirm.txt"
