#!/usr/bin/env python3
"""Maintenance: fold seeded/<id>/result_*.json into meta.json (`checks_run`) and print the catch table for DESIGN.md."""
import json, os, glob
V = os.path.dirname(os.path.dirname(os.path.abspath(__file__)))
rows = []
for d in sorted(glob.glob(os.path.join(V, "seeded", "C*"))):
    mp = os.path.join(d, "meta.json")
    if not os.path.exists(mp):
        continue
    m = json.load(open(mp))
    runs = []
    for rp in sorted(glob.glob(os.path.join(d, "result_*.json"))):
        r = json.load(open(rp))
        ob = ""
        for l in r.get("violation_lines", []):
            if l.startswith("obligation "):
                ob = l.split()[1]
                break
        runs.append({"check": r["check"], "mode": r.get("mode", ""), "exit": r["exit"], "caught": r["caught"], "wall_s": r["wall_s"], "first_refuted_obligation": ob,
                     "replay_reproduced_on_real_code": not any("no-failing-input-found" in l for l in r.get("violation_lines", []) if l.startswith("VIOLATION")) if r["caught"] else None,
                     "replay_copy": r.get("replay_copy")})
    m["checks_run"] = runs
    json.dump(m, open(mp, "w"), indent=1)
    for r in runs:
        rows.append("| %s | %s | `%s` | %s | %s | %s |" % (os.path.basename(d), m["change"][:110].replace("|", "/"), r["check"], "caught" if r["caught"] else "MISSED (exit %d)" % r["exit"],
                                                          r["first_refuted_obligation"], "yes" if r["replay_reproduced_on_real_code"] else ("no-failing-input-found" if r["caught"] else "-")))
print("| seeded change | what it changes | check run | result | first refuted obligation | counterexample replayed on the real code |")
print("|---|---|---|---|---|---|")
print("\n".join(rows))
