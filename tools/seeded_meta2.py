import json, os, sys
V='/verif'
INFO = {
 "C02b": ("C02", "src/f64/dvec3.rs DVec3::reject_from: projection coefficient |self.rhs| / |rhs|^2 (abs of the dot product) instead of self.rhs / |rhs|^2", "a pair at an obtuse angle (self.dot(rhs) < 0); identical bits otherwise"),
 "C14b": ("C14", "src/i32/ivec3.rs impl TryFrom<I64Vec3> for IVec3: y lane clamped from below (v.y.max(i32::MIN)) before the checked conversion", "a y lane below i32::MIN (returns Ok(i32::MIN) instead of Err); x, z lanes and values above i32::MAX unaffected"),
 "C15b": ("C15", "src/f32/sse2/vec4.rs Vec4::cmpge: _mm_cmpge_ps replaced by _mm_cmpnlt_ps (not-less-than: true for unordered operands)", "a NaN in either operand of a lane: cmpge lane true instead of false"),
 "C17b": ("C17", "src/f64/dvec4.rs impl From<DVec4> for (f64,f64,f64,f64): lane z returned as v.z + 0.0", "lane 2 through the Into<tuple> path only, bit patterns -0.0 (sign lost) or a signalling NaN payload (quieted)"),
 "C18b": ("C18", "src/f32/vec3.rs Vec3::clamp_length: std f32::clamp on the squared length with bounds (min*min, max*max)", "min > max or a NaN bound in a build without glam-assert: std clamp panics (undocumented panic)"),
 "C06b": ("C06", "src/f64/daffine3.rs DAffine3::to_cols_array (and write_cols_to_slice through it): last entry returned as w.z + 0.0", "translation z == -0.0 or a signalling NaN payload: the entry is not moved bit-for-bit, to_cols_array disagrees with to_cols_array_2d"),
}
for sid,(prop,chg,needs) in INFO.items():
    d=os.path.join(V,'seeded',sid)
    if not os.path.isdir(d): continue
    conf=open(os.path.join(d,'confirm.txt')).read().strip().splitlines() if os.path.exists(os.path.join(d,'confirm.txt')) else []
    runs=[]
    for f in sorted(os.listdir(d)):
        if f.startswith('result') and f.endswith('.json'):
            r=json.load(open(os.path.join(d,f)))
            first=None
            for l in r.get('violation_lines',[]):
                if l.startswith('obligation '): first=l.split()[1]; break
            runs.append({"file":f,"check":r['check'],"mode":r['mode'],"exit":r['exit'],"caught":r['caught'],"wall_s":r['wall_s'],"first_refuted_obligation":first,"violation_lines":r.get('violation_lines',[])[:3],"replay_copy":r.get('replay_copy')})
    meta={"id":sid,"breaks_property":prop,"change":chg,"needs_to_manifest":needs,
      "produced_by":"fresh sub-agent (round 2) given only the property text and its own scratch worktree of /repo (nothing from /verif)",
      "confirmed_by_me":{"how":"tools/confirm_seed.sh in the scratch worktree: demo as tests/mut_demo.rs with the change (must fail), with the change reverted via git apply -R (must pass), then the full existing suite `cargo test --offline --no-fail-fast` with the change and without the demo (must pass)","results":conf},
      "checks_run":runs}
    json.dump(meta,open(os.path.join(d,'meta.json'),'w'),indent=1)
    print(sid,[ (r['file'],r['exit'],r['caught'],r['first_refuted_obligation']) for r in runs])
