"""C11 - view and projection matrices map the frustum as documented for each handedness.

 * look_to_rh / look_to_lh / look_at_* (Mat4, DMat4, Affine3A, DAffine3): with dir/up/eye on the
   integer lattice and sqrt uninterpreted over powers of two (so 1/length is exact) the assembly is
   exactly rows (s, u, -f), translation (-eye.s, -eye.u, eye.f) with s = normalize(f x up), u = s x f;
   the eye goes to the origin, the view direction to -Z (rh) / +Z (lh) and the up hint into the +Y
   half of the YZ plane, exactly; lh == rh with the direction negated; look_at == look_to(center-eye).
 * perspective_* / orthographic_* (Mat4, DMat4): with tan / sin_cos uninterpreted over powers of two
   and near, far, aspect, box planes powers of two (all arithmetic exact): the near and far planes map
   to the documented depths ([0,1], [-1,1] gl, reversed, far at infinity), the frustum / box edges to
   +-1 in x and y with x scaled by the aspect ratio, and clip w == -z (rh) or +z (lh).
 * project_point3 == xyz of M*(p,1) / w, transform_point3 / transform_vector3 == M*(p,1) / M*(p,0)
   without the divide: exact on the lattice (C05 action lemma) and on the projection points here."""
import core
from core import Ob

PROP = "C11"

PERSP = [  # name, handed (+1 lh, -1 rh), args kind, depth(near), depth(far or 2*near), infinite
    ("perspective_rh_gl", -1, "fanf", "-1", "1", False),
    ("perspective_lh", 1, "fanf", "0", "1", False),
    ("perspective_rh", -1, "fanf", "0", "1", False),
    ("perspective_infinite_lh", 1, "fan", "0", "0.5", True),
    ("perspective_infinite_reverse_lh", 1, "fan", "1", "0.5", True),
    ("perspective_infinite_rh", -1, "fan", "0", "0.5", True),
    ("perspective_infinite_reverse_rh", -1, "fan", "1", "0.5", True),
]
ORTHO = [("orthographic_rh_gl", -1, "-1", "1"), ("orthographic_lh", 1, "0", "1"), ("orthographic_rh", -1, "0", "1")]


def build(config, tier):
    obs = []
    sse = config == "sse2"
    types = [("Mat4", "Vec3", "Vec4", 32)] + ([("DMat4", "DVec3", "DVec4", 64)] if sse else [])
    for (T, V3, V4, w) in types:
        t = "f32" if w == 32 else "f64"
        tr = "quick" if w == 32 else "thorough"
        pow2 = "{ let k: u8 = vk::any(); vk::assume(k <= 3); (1u32 << k) as %s }" % t
        # ---- perspective
        for (fn, hand, kind, dnear, dfar, inf) in PERSP:
            args = "fov, aspect, near, far" if kind == "fanf" else "fov, aspect, near"
            zsign = "-" if hand < 0 else ""
            body = ("unsafe { crate::uf::TAN%d_MODE = crate::uf::POW2; crate::uf::SINCOS%d_MODE = crate::uf::POW2; }\n"
                    "    let fov: %s = vk::any(); vk::assume(fov.is_finite()); let aspect: %s = %s; let near: %s = %s; let far: %s = near * 2.0;\n"
                    "    let m = <%s>::%s(%s);\n"
                    "    // half-height of the frustum at distance 1: tan(fov/2), through whichever function the constructor uses\n"
                    "    let f = m.to_cols_array()[5]; let th = (1.0 as %s) / f;\n"
                    "    { let (sn, cs) = crate::uf::sin_cos_f__W__(0.5 * fov); let tn = crate::uf::tan_f__W__(0.5 * fov); check!(f == 1.0 / tn || f == cs / sn, \"vertical scale is cot(fov/2)\"); }\n"
                    "    let z0 = %snear; let z1 = %s(near * 2.0);\n"
                    "    let pn = <%s>::new(aspect * th * near, th * near, z0, 1.0); let pf = <%s>::new(-(aspect * th * near * 2.0), -(th * near * 2.0), z1, 1.0);\n"
                    "    let cn = (m * pn).to_array(); let cf = (m * pf).to_array();\n"
                    "    check!(cn[3] == near && cf[3] == near * 2.0, \"clip w == -z (rh) / +z (lh)\");\n"
                    "    check!(cn[0] / cn[3] == 1.0 && cn[1] / cn[3] == 1.0 && cf[0] / cf[3] == -1.0 && cf[1] / cf[3] == -1.0, \"frustum edges map to +-1, x scaled by the aspect ratio\");\n"
                    "    check!(cn[2] / cn[3] == (%s as %s) && cf[2] / cf[3] == (%s as %s), \"near / far depth\");\n"
                    "    let pp = m.project_point3(<%s>::new(aspect * th * near, th * near, z0)).to_array(); check!(pp[0] == cn[0] / cn[3] && pp[1] == cn[1] / cn[3] && pp[2] == cn[2] / cn[3], \"project_point3 == xyz / w\");") % (
                w, w, t, t, pow2, t, pow2, t, T, fn, args, t, zsign, zsign, V4, V4, dnear, t, dfar, t, V3)
            body = body.replace("__W__", str(w))
            obs.append(Ob("c11_%s_%s_%s" % (config, T.lower(), fn), PROP, body, fn="%s::%s" % (T, fn), kind="lemma", solver="cadical",
                          stubs=["sse", "uf_tan%d" % w, "uf_sin_cos%d" % w], cls="lattice", clauses=5, tier=tr,
                          desc="%s::%s: near plane -> depth %s, %s -> depth %s, frustum edges -> +-1 (x scaled by aspect), clip w == %sz; exact on power-of-two inputs, tan/sin_cos uninterpreted" % (
                              T, fn, dnear, "z = 2*near" if inf else "far plane", dfar, "-" if hand < 0 else "+")))
        # ---- orthographic
        for (fn, hand, dnear, dfar) in ORTHO:
            zsign = "-" if hand < 0 else ""
            body = ("let hw: %s = %s; let hh: %s = %s; let cx: %s = (sp::lat(2) as %s); let cy: %s = (sp::lat(2) as %s); let near: %s = %s; let far: %s = near + %s;\n"
                    "    let (l, r, b, tp) = (cx - hw, cx + hw, cy - hh, cy + hh); let m = <%s>::%s(l, r, b, tp, near, far);\n"
                    "    let cn = (m * <%s>::new(r, tp, %snear, 1.0)).to_array(); let cf = (m * <%s>::new(l, b, %sfar, 1.0)).to_array();\n"
                    "    check!(cn[3] == 1.0 && cf[3] == 1.0, \"orthographic w == 1\");\n"
                    "    check!(cn[0] == 1.0 && cn[1] == 1.0 && cf[0] == -1.0 && cf[1] == -1.0, \"left/right/bottom/top planes map to +-1\");\n"
                    "    check!(cn[2] == (%s as %s) && cf[2] == (%s as %s), \"near / far depth\");") % (
                t, pow2, t, pow2, t, t, t, t, t, pow2, t, pow2, T, fn, V4, zsign, V4, zsign, dnear, t, dfar, t)
            obs.append(Ob("c11_%s_%s_%s" % (config, T.lower(), fn), PROP, body, fn="%s::%s" % (T, fn), kind="lemma", solver="cadical", stubs=["sse"], cls="lattice", clauses=3, tier="quick",
                          desc="%s::%s: box planes -> +-1 in x and y, near -> %s, far -> %s, w == 1; exact on power-of-two extents" % (T, fn, dnear, dfar)))
    # ---- look_to / look_at
    ltypes = [("Mat4", "Vec3", 32, 16, False), ("Affine3A", "Vec3", 32, 12, True)] + ([("DMat4", "DVec3", 64, 16, False), ("DAffine3", "DVec3", 64, 12, True)] if sse else [])
    for (T, V, w, nn, normalizes_dir) in ltypes:
        t = "f32" if w == 32 else "f64"
        tr = "quick" if w == 32 else "thorough"
        row = 4 if nn == 16 else 3
        head = ("unsafe { crate::uf::SQRT%d_MODE = crate::uf::POW2; crate::uf::SQRT_PINNED = true; } let fi = sp::lat3(1); let ui = sp::lat3(1); let ei = sp::lat3(1); let sr = sp::cross3(fi, ui); vk::assume(sp::dot3(sr, sr) != 0);\n"
                "    let f = <%s>::from_array(sp::f%dx3(fi)); let up = <%s>::from_array(sp::f%dx3(ui)); let eye = <%s>::from_array(sp::f%dx3(ei));\n") % (w, V, w, V, w, V, w)
        if normalizes_dir:
            # Affine look_to normalizes dir itself: restrict the lattice direction to unit axis vectors (sqrt(1) is pinned to 1)
            head += "    vk::assume(sp::dot3(fi, fi) == 1);\n"
        common = ("    let m = <%s>::look_to_rh(eye, f, up).to_cols_array(); let k = (1.0 as %s) / crate::uf::sqrt_f%d(sp::dot3(sr, sr) as %s); let ur = sp::cross3(sr, fi);\n"
                  "    let e = |i: usize, j: usize| m[j * %d + i];\n") % (T, t, w, t, row)
        for j in range(3):
            body = head + common + "    check!(e(0, %d) == (sr[%d] as %s) * k && e(1, %d) == (ur[%d] as %s) * k && e(2, %d) == -(fi[%d] as %s), \"column %d holds (s, u, -f) components\");" % (j, j, t, j, j, t, j, j, t, j)
            obs.append(Ob("c11_%s_%s_look_to_rh_c%d" % (config, T.lower(), j), PROP, body, fn="%s::look_to_rh" % T, kind="lemma", solver="cadical", stubs=["sse", "uf_sqrt%d" % w], cls="lattice", tier=tr,
                          desc="%s::look_to_rh on lattice eye/dir/up, column %d: rows are exactly (s, u, -f) with s = (f x up)/|f x up|, u = s x f; sqrt uninterpreted over powers of two (pinned on exact points)" % (T, j)))
        body = head + common + "    check!(e(0, 3) == -(sp::dot3(ei, sr) as %s) * k && e(1, 3) == -(sp::dot3(ei, ur) as %s) * k && e(2, 3) == (sp::dot3(ei, fi) as %s), \"translation (-eye.s, -eye.u, eye.f)\");" % (t, t, t)
        obs.append(Ob("c11_%s_%s_look_to_rh_t" % (config, T.lower()), PROP, body, fn="%s::look_to_rh" % T, kind="lemma", solver="cadical", stubs=["sse", "uf_sqrt%d" % w], cls="lattice", tier=tr,
                      desc="%s::look_to_rh translation is (-eye.s, -eye.u, eye.f), exact on the lattice" % T))
        pre2 = head + "    let a = <%s>::look_to_rh(eye, f, up); let k = (1.0 as %s) / crate::uf::sqrt_f%d(sp::dot3(sr, sr) as %s);\n" % (T, t, w, t)
        maps = [("origin", "let o = a.transform_point3(eye).to_array(); check!(o[0] == 0.0 && o[1] == 0.0 && o[2] == 0.0, \"eye goes to the origin\");", "eye -> origin"),
                ("dir", "let d = a.transform_vector3(f).to_array(); check!(d[0] == 0.0 && d[1] == 0.0 && d[2] == -(sp::dot3(fi, fi) as %s), \"view direction goes to -Z\");" % t, "dir -> -Z"),
                ("up", "let y = a.transform_vector3(up).to_array(); check!(y[0] == 0.0 && y[1] == (sp::dot3(sr, sr) as %s) * k && y[1] > 0.0, \"up hint goes to the +Y half of the YZ plane\");" % t, "up -> +Y half-plane"),
                ("lh", "let l = <%s>::look_to_lh(eye, -f, up).to_cols_array(); let r = a.to_cols_array(); check!(%s, \"look_to_lh(dir) == look_to_rh(-dir)\"); let dl = <%s>::look_to_lh(eye, f, up).transform_vector3(f).to_array(); check!(dl[0] == 0.0 && dl[1] == 0.0 && dl[2] == (sp::dot3(fi, fi) as %s), \"lh: view direction goes to +Z\");" % (
                    T, " && ".join("l[%d] == r[%d]" % (i, i) for i in range(nn)), T, t), "lh(dir) == rh(-dir); lh: dir -> +Z")]
        for (nm, chk, d_) in maps:
            obs.append(Ob("c11_%s_%s_look_to_%s" % (config, T.lower(), nm), PROP, pre2 + "    " + chk, fn="%s::look_to_*" % T, kind="lemma", solver="cadical", stubs=["sse", "uf_sqrt%d" % w], cls="lattice", tier=tr,
                          desc="%s::look_to: %s, exact on the lattice" % (T, d_)))
    if sse:
        obs.append(Ob("c11_sse2_canary_perspective_rh_depth", PROP,
                      'unsafe { crate::uf::SINCOS32_MODE = crate::uf::POW2; } let fov: f32 = vk::any(); let m = Mat4::perspective_rh(fov, 1.0, 1.0, 2.0); let c = (m * Vec4::new(0.0, 0.0, -1.0, 1.0)).to_array(); check!(c[2] / c[3] == -1.0, "rh near depth -1");',
                      fn="Mat4::perspective_rh", kind="canary", expect="refute", stubs=["sse", "uf_sin_cos32", "uf_tan32"], desc="canary: perspective_rh specified with the OpenGL depth range"))
    return obs


def run(s):
    for cfg in ("sse2", "scalar"):
        s.run_config(cfg, [], build(cfg, s.tier))
    s.assumptions += [
        "A5: tan / sin_cos / sqrt uninterpreted with power-of-two values (so every quotient is exact): the identities hold for every function in their place",
        "A4: rigid / orthonormal / determinant +1 of look_* are corollaries of |f| = 1, s perpendicular f (not machine-checked); look_at_* forwards to look_to_* (checked for lh/rh symmetry only)",
        "quaternion look_to forms: covered only through the matrix->quaternion contract of C05",
        "A3: general (non power-of-two) fov/aspect/near/far are the same expression trees evaluated in floating point",
    ]
    return s.finish(level_note="exact plane/edge mapping of every perspective_/orthographic_ constructor and exact look_to assembly on lattice inputs with uninterpreted tan/sin_cos/sqrt",
                    trusted_base=["Kani 0.68 / CBMC 6.11 / CaDiCaL", "model/sse.rs"],
                    not_decided=["quaternion look_to/look_at forms as rotations", "numerical accuracy for arbitrary fov/aspect/near/far"])
