"""C05 - Quat, Mat3/Mat3A, Mat4 and Affine types are interchangeable views of a transform.

 * embeddings / truncations between matrix and affine types (every `from_mat*`, `From<..>` and
   `as_*` found in the current source): target entry (r,c) is bit-for-bit the source entry (r,c)
   where the source stores one, the identity entry elsewhere; f32<->f64 forms are `as` per entry.
   Full domain, hidden lanes symbolic.
 * from_quat (Mat3, Mat3A, Mat4, Affine3A + f64): exact on the lattice: entries ==
   qmat(q) + (1-|q|^2) I, the polynomial identity that holds for EVERY q (unit: the rotation matrix);
   hence matrix_of(q) * v == q*v (+ (1-|q|^2) v) on the lattice.
 * action agreement on the lattice: converted objects map points and directions identically
   (transform_point*, transform_vector*, M*(p,1), M*(p,0)).
 * commutation on the lattice: Mat4::from(a*b) == Mat4::from(a)*Mat4::from(b),
   matrix_of(q*p) == matrix_of(q)*matrix_of(p) for the lattice unit quaternions, identity to identity.
 * matrix -> quaternion: on integer matrices with sqrt uninterpreted over {1,2,4}: branch taken and
   components equal the documented Shepperd forms; round trip matrix->quat->matrix exact on the 12
   cube rotations whose quaternion is rational (identity, 3 half-turns, 8 third-turns): all four branches."""
import os, re
import core
from core import Ob
import weave
from gt import MATS, AFFINES, MAT_BY_NAME

PROP = "C05"


def stored(M, v, r, c):
    """expression for stored entry (r,c) of value `v` of type M"""
    return "%s[%d]" % (v, c * M.R + r)


def build(config, tier):
    backend = core.CONFIGS[config]["backend"]
    obs, uncovered = [], []
    ALL = MATS + AFFINES
    # ---- embeddings found in the source
    conv = []  # (label, S, T, call)
    for T in ALL:
        if config != "sse2" and not (T.simd or T.name in ("Affine3A", "Affine2")):
            continue
        src = open(os.path.join(weave.REPO, T.file(backend))).read()
        for m in re.finditer(r"pub (?:const )?fn (from_(?:mat|affine)\w*)\((\w+): &?(\w+)\) -> Self", src):
            fn, arg, S = m.group(1), m.group(2), m.group(3)
            if S in MAT_BY_NAME:
                ref = "&" if "&" in m.group(0) else ""
                conv.append(("%s::%s" % (T.name, fn), MAT_BY_NAME[S], T, "<%s>::%s(%ss)" % (T.name, fn, ref), "bits"))
        for m in re.finditer(r"^impl From<(\w+)> for (\w+) \{", src, re.M):
            S, TT = m.group(1), m.group(2)
            if S in MAT_BY_NAME and TT in MAT_BY_NAME:
                conv.append(("From<%s> for %s" % (S, TT), MAT_BY_NAME[S], MAT_BY_NAME[TT], "<%s>::from(s)" % TT, "bits"))
        for m in re.finditer(r"pub (?:const )?fn (as_\w+)\(&self\) -> (?:crate::)?(\w+)", src):
            fn, TT = m.group(1), m.group(2)
            if TT in MAT_BY_NAME:
                conv.append(("%s::%s" % (T.name, fn), T, MAT_BY_NAME[TT], "s.%s()" % fn, "as"))
    seen = set()
    per_T = {}
    for (label, S, T, call, mode) in conv:
        if label in seen:
            continue
        seen.add(label)
        conds = []
        for c in range(T.C):
            for r in range(T.R):
                if r < S.R and c < S.C:
                    src_e = stored(S, "sa", r, c)
                else:
                    src_e = "(%s as %s)" % ("1" if r == c else "0", S.t)
                if mode == "as":
                    conds.append("(%s).to_bits() == ((%s) as %s).to_bits()" % (stored(T, "ta", r, c), src_e, T.t))
                else:
                    if S.t != T.t:
                        conds = None
                        break
                    conds.append("(%s).to_bits() == (%s).to_bits()" % (stored(T, "ta", r, c), src_e))
            if conds is None:
                break
        if conds is None:
            uncovered.append(label)
            continue
        per_T.setdefault(S.name, []).append((label, "{ let ta = (%s).to_cols_array(); %s }" % (call, " && ".join(conds))))
    for Sn, cl in sorted(per_T.items()):
        name = "c05_%s_%s_embed" % (config, Sn.lower())
        pre = "let s = mk::<%s>(); let sa = s.to_cols_array();" % Sn
        agg = pre + "\n    let ok = " + "\n        && ".join(c[1] for c in cl) + ';\n    check!(ok, "bundle of %d embedding clauses");' % len(cl)
        spl = pre + "\n    " + "\n    ".join('check!(%s, "%s");' % (c[1], c[0]) for c in cl)
        desc = "conversions out of %s: entry (r,c) preserved bit-for-bit / `as`, identity padding: %s" % (Sn, "; ".join(c[0] for c in cl))
        obs.append(Ob(name, PROP, agg, fn="%s conversions" % Sn, kind="bundle", solver="cadical", stubs=["sse"], clauses=len(cl), split=name + "__split", cls="bits", desc=desc[:700]))
        obs.append(Ob(name + "__split", PROP, spl, fn="%s conversions" % Sn, kind="bundle-split", solver="cadical", stubs=["sse"], desc=desc[:300]))
    # ---- from_quat on the lattice
    qtargets = [("Mat3", "Quat", 32, 3, "m3"), ("Mat3A", "Quat", 32, 3, "m3"), ("Mat4", "Quat", 32, 4, "m4"), ("Affine3A", "Quat", 32, 3, "af"),
                ("DMat3", "DQuat", 64, 3, "m3"), ("DMat4", "DQuat", 64, 4, "m4"), ("DAffine3", "DQuat", 64, 3, "af")]
    for (T, Q, w, n, kind) in qtargets:
        if config != "sse2" and T in ("Mat3", "DMat3", "DMat4", "DAffine3"):
            continue
        idx = []
        if kind == "m3":
            exp = ["e[%d]" % i for i in range(9)]
        elif kind == "m4":
            exp = ["e[0]", "e[1]", "e[2]", "0", "e[3]", "e[4]", "e[5]", "0", "e[6]", "e[7]", "e[8]", "0", "0", "0", "0", "1"]
        else:
            exp = ["e[%d]" % i for i in range(9)] + ["0", "0", "0"]
        body = ("let qi = sp::lat4(1); let q = <%s>::from_array(sp::f%dx4(qi)); let m = <%s>::from_quat(q).to_cols_array();\n"
                "    let mut e = sp::qmat(qi); let d = 1 - sp::norm2(qi); e[0] += d; e[4] += d; e[8] += d;\n"
                "    check!(%s, \"from_quat entries\");") % (Q, w, T, " && ".join("sp::eqi%d(m[%d], %s)" % (w, i, x) for i, x in enumerate(exp)))
        obs.append(Ob("c05_%s_%s_from_quat" % (config, T.lower()), PROP, body, fn="%s::from_quat" % T, kind="lemma", solver="cadical", stubs=["sse"], cls="lattice",
                      tier="quick" if w == 32 else "thorough",
                      desc="%s::from_quat(q) == qmat(q) + (1-|q|^2) I exactly on the lattice {-1,0,1}^4 (for unit q: the rotation matrix of q)" % T))
    # q*v agrees with matrix_of(q)*v on the lattice unit quaternions
    body = ("let qi = sp::lat4(1); vk::assume(sp::norm2(qi) == 1); let vi = sp::lat3(1); let q = Quat::from_array(sp::f32x4(qi)); let v = Vec3::from_array(sp::f32x3(vi));\n"
            "    let a = (q * v).to_array(); let b = (Mat3::from_quat(q) * v).to_array(); let c = (Mat3A::from_quat(q) * Vec3A::from(v)).to_array(); let d = Mat4::from_quat(q).transform_vector3(v).to_array(); let f = Affine3A::from_quat(q).transform_vector3(v).to_array();\n"
            "    check!(a[0] == b[0] && a[1] == b[1] && a[2] == b[2] && a[0] == c[0] && a[1] == c[1] && a[2] == c[2] && a[0] == d[0] && a[1] == d[1] && a[2] == d[2] && a[0] == f[0] && a[1] == f[1] && a[2] == f[2], \"q*v == M(q)*v\");")
    obs.append(Ob("c05_%s_quat_action" % config, PROP, body, fn="q*v vs matrix_of(q)*v", kind="lemma", solver="cadical", stubs=["sse"], cls="lattice",
                  desc="for the lattice unit quaternions q*v, Mat3/Mat3A/Mat4/Affine3A::from_quat(q) applied to v all agree exactly"))
    # ---- action agreement Affine3A <-> Mat4, Affine2 <-> Mat3/Mat3A on the lattice
    body = ("let ai = sp::lat12(1); let a = mk::affine3a_of(sp::f32x12(ai)); let pi = sp::lat3(1); let p = Vec3::from_array(sp::f32x3(pi)); let m = Mat4::from(a);\n"
            "    let x = a.transform_point3(p).to_array(); let y = m.transform_point3(p).to_array(); let z = (m * p.extend(1.0)).to_array(); let u = a.transform_vector3(p).to_array(); let v = m.transform_vector3(p).to_array(); let w = (m * p.extend(0.0)).to_array();\n"
            "    let xa = a.transform_point3a(Vec3A::from(p)).to_array(); let ya = m.transform_point3a(Vec3A::from(p)).to_array(); let pp = m.project_point3(p).to_array();\n"
            "    check!(x[0] == y[0] && x[1] == y[1] && x[2] == y[2] && x[0] == z[0] && x[1] == z[1] && x[2] == z[2] && z[3] == 1.0 && x[0] == xa[0] && x[1] == xa[1] && x[2] == xa[2] && xa[0] == ya[0] && xa[1] == ya[1] && xa[2] == ya[2] && pp[0] == x[0] && pp[1] == x[1] && pp[2] == x[2], \"points\");\n"
            "    check!(u[0] == v[0] && u[1] == v[1] && u[2] == v[2] && u[0] == w[0] && u[1] == w[1] && u[2] == w[2] && w[3] == 0.0, \"directions\");")
    obs.append(Ob("c05_%s_affine3a_mat4_action" % config, PROP, body, fn="Affine3A vs Mat4 action", kind="lemma", solver="cadical", stubs=["sse"], cls="lattice", clauses=2,
                  desc="Affine3A and Mat4::from(it) map every lattice point and direction identically (transform_point3/3a, transform_vector3, M*(p,1), M*(p,0), project_point3)"))
    body = ("let ai = sp::lat6(1); let a = Affine2::from_cols_array(&sp::f32x6(ai)); let pi = sp::lat2(1); let p = Vec2::from_array(sp::f32x2(pi)); let m = Mat3::from(a); let ma = Mat3A::from(a);\n"
            "    let x = a.transform_point2(p).to_array(); let y = m.transform_point2(p).to_array(); let z = ma.transform_point2(p).to_array(); let u = a.transform_vector2(p).to_array(); let v = m.transform_vector2(p).to_array(); let w = ma.transform_vector2(p).to_array(); let h = (m * p.extend(1.0)).to_array();\n"
            "    check!(x[0] == y[0] && x[1] == y[1] && x[0] == z[0] && x[1] == z[1] && u[0] == v[0] && u[1] == v[1] && u[0] == w[0] && u[1] == w[1] && h[0] == x[0] && h[1] == x[1] && h[2] == 1.0, \"2D action\");")
    obs.append(Ob("c05_%s_affine2_mat3_action" % config, PROP, body, fn="Affine2 vs Mat3/Mat3A action", kind="lemma", solver="cadical", stubs=["sse"], cls="lattice",
                  desc="Affine2, Mat3::from(it) and Mat3A::from(it) map every lattice point and direction identically"))
    # ---- commutation with composition
    body = ("let ai = sp::lat12(1); let bi = sp::lat12(1); let a = mk::affine3a_of(sp::f32x12(ai)); let b = mk::affine3a_of(sp::f32x12(bi));\n"
            "    let l = Mat4::from(a * b).to_cols_array(); let r = (Mat4::from(a) * Mat4::from(b)).to_cols_array();\n"
            "    check!(%s, \"Mat4::from(a*b) == Mat4::from(a)*Mat4::from(b)\");") % " && ".join("l[%d] == r[%d]" % (i, i) for i in range(16))
    obs.append(Ob("c05_%s_affine3a_compose" % config, PROP, body, fn="Affine3A * Affine3A", kind="lemma", solver="cadical", stubs=["sse"], cls="lattice", tier="thorough",
                  desc="Mat4::from(a*b) == Mat4::from(a)*Mat4::from(b) exactly on the lattice"))
    body = ("let ai = sp::lat6(1); let bi = sp::lat6(1); let a = Affine2::from_cols_array(&sp::f32x6(ai)); let b = Affine2::from_cols_array(&sp::f32x6(bi));\n"
            "    let l = Mat3::from(a * b).to_cols_array(); let r = (Mat3::from(a) * Mat3::from(b)).to_cols_array(); let i3 = Mat3::from(Affine2::IDENTITY).to_cols_array(); let id = Mat3::IDENTITY.to_cols_array();\n"
            "    check!(%s, \"Mat3::from(a*b) == Mat3::from(a)*Mat3::from(b); identity to identity\");") % " && ".join("l[%d] == r[%d] && i3[%d] == id[%d]" % (i, i, i, i) for i in range(9))
    obs.append(Ob("c05_%s_affine2_compose" % config, PROP, body, fn="Affine2 * Affine2", kind="lemma", solver="cadical", stubs=["sse"], cls="lattice",
                  desc="Mat3::from(a*b) == Mat3::from(a)*Mat3::from(b) exactly on the lattice; identity converts to identity"))
    body = ("let qi = sp::lat4(1); let pi = sp::lat4(1); vk::assume(sp::norm2(qi) == 1 && sp::norm2(pi) == 1); let q = Quat::from_array(sp::f32x4(qi)); let p = Quat::from_array(sp::f32x4(pi));\n"
            "    let l = Mat3::from_quat(q * p).to_cols_array(); let r = (Mat3::from_quat(q) * Mat3::from_quat(p)).to_cols_array();\n"
            "    check!(%s, \"matrix_of(q*p) == matrix_of(q)*matrix_of(p)\");") % " && ".join("l[%d] == r[%d]" % (i, i) for i in range(9))
    obs.append(Ob("c05_%s_quat_compose" % config, PROP, body, fn="from_quat(q*p)", kind="lemma", solver="cadical", stubs=["sse"], cls="lattice",
                  desc="matrix_of(q*p) == matrix_of(q)*matrix_of(p) exactly for the lattice unit quaternions"))
    # ---- matrix -> quaternion
    spec = """
    // Shepperd's method as documented: branch on m22, then on m11 -/+ m00; components from the pivot
    let (m00, m01, m02, m10, m11, m12, m20, m21, m22) = (mi[0], mi[1], mi[2], mi[3], mi[4], mi[5], mi[6], mi[7], mi[8]);
    let (t, num): (i16, [i16; 4]) = if m22 <= 0 {
        if m11 - m00 <= 0 { let t = 1 - m22 - m11 + m00; (t, [t, m01 + m10, m02 + m20, m12 - m21]) }
        else { let t = 1 - m22 + m11 - m00; (t, [m01 + m10, t, m12 + m21, m20 - m02]) }
    } else {
        if m11 + m00 <= 0 { let t = 1 + m22 - m11 - m00; (t, [m02 + m20, m12 + m21, t, m01 - m10]) }
        else { let t = 1 + m22 + m11 + m00; (t, [m12 - m21, m20 - m02, m01 - m10, t]) }
    };"""
    for (Q, Mx, w) in (("Quat", "Mat3", 32), ("DQuat", "DMat3", 64)):
        if config != "sse2" and Q == "DQuat":
            continue
        t = "f32" if w == 32 else "f64"
        body = ("unsafe { crate::uf::SQRT%d_MODE = crate::uf::POW2; } let mi = sp::lat9(1); let m = <%s>::from_cols_array(&sp::f%dx9(mi)); let q = <%s>::from_mat3(&m).to_array();" % (w, Mx, w, Q)
                + spec + "\n    let r = crate::uf::sqrt_f%d(t as %s); let k = (0.5 as %s) / r;\n    check!(%s, \"matrix -> quaternion branch and components\");" % (
                    w, t, t, " && ".join("q[%d] == (num[%d] as %s) * k" % (i, i, t) for i in range(4))))
        obs.append(Ob("c05_%s_%s_from_mat3" % (config, Q.lower()), PROP, body, fn="%s::from_mat3" % Q, kind="lemma", solver="cadical", stubs=["sse", "uf_sqrt%d" % w], cls="control",
                      desc="%s::from_mat3 on integer matrices: the branch taken is the documented predicate on m22, m11-/+m00 and the components are (pivot, sums/differences of the named entries) * 0.5/sqrt(pivot); sqrt uninterpreted over {1,2,4}" % Q))
    body = ("unsafe { crate::uf::SQRT_PINNED = true; } let qi = sp::lat4(1); let n2 = sp::norm2(qi); vk::assume(n2 == 1 || n2 == 4); let e = sp::qmat(qi); let mi = [e[0] / n2, e[1] / n2, e[2] / n2, e[3] / n2, e[4] / n2, e[5] / n2, e[6] / n2, e[7] / n2, e[8] / n2];\n"
            "    let m = Mat3::from_cols_array(&sp::f32x9(mi)); let q = Quat::from_mat3(&m); let back = Mat3::from_quat(q).to_cols_array(); let qa = Quat::from_mat3a(&Mat3A::from(m)).to_array(); let q4 = Quat::from_mat4(&Mat4::from_mat3(m)).to_array(); let q0 = q.to_array();\n"
            "    check!(%s, \"matrix -> quaternion -> matrix on the rational cube rotations\");\n"
            "    check!(q0[0] == qa[0] && q0[1] == qa[1] && q0[2] == qa[2] && q0[3] == qa[3] && q0[0] == q4[0] && q0[1] == q4[1] && q0[2] == q4[2] && q0[3] == q4[3], \"from_mat3 == from_mat3a == from_mat4\");") % (
        " && ".join("sp::eqi32(back[%d], mi[%d])" % (i, i) for i in range(9)))
    obs.append(Ob("c05_%s_quat_roundtrip" % config, PROP, body, fn="Quat::from_mat3 round trip", kind="lemma", solver="cadical", stubs=["sse", "uf_sqrt32"], cls="lattice", clauses=2,
                  desc="matrix -> quaternion -> matrix is exact on the 12 cube rotations with rational quaternions (identity, 3 half-turns about the axes, 8 third-turns): exercises all four branches incl. trace <= 0"))
    if config == "sse2":
        obs.append(Ob("c05_sse2_canary_from_quat_transposed", PROP,
                      'let qi = sp::lat4(1); let q = Quat::from_array(sp::f32x4(qi)); let m = Mat3::from_quat(q).to_cols_array(); let e = sp::qmat(qi); check!(sp::eqi32(m[1], e[3]) && sp::eqi32(m[3], e[1]), "transposed rotation");',
                      fn="Mat3::from_quat", kind="canary", expect="refute", desc="canary: from_quat specified as the transposed (inverse) rotation"))
    return obs, uncovered


def run(s):
    unc = []
    for cfg in ("sse2", "scalar"):
        obs, u = build(cfg, s.tier)
        unc += u
        s.run_config(cfg, [], obs)
    s.assumptions += [
        "A4: general (non-lattice) rotations: matrix -> quaternion -> matrix returning the same rotation is a mathematical corollary of the branch contract, not machine-checked",
        "A5: sqrt uninterpreted (values 1, 2, 4) for the branch contract; pinned exact on {0, 1/4, 1, 4, 16} for the round trip",
        "A3: off the lattice results are the verified expression trees evaluated in floating point",
        "Affine inverse converts to the Mat4 inverse: thorough tier only (C10/C03 lattice obligations)",
    ]
    return s.finish(level_note="bit-for-bit embeddings; exact-lattice from_quat, action agreement and commutation lemmas; matrix->quaternion branch contract and round trip on rational cube rotations",
                    trusted_base=["Kani 0.68 / CBMC 6.11 / CaDiCaL", "model/sse.rs"], extra_cov={"uncovered_conversions": unc},
                    not_decided=["chains of conversions of length up to 4 beyond the pairwise lemmas", "angles within 1e-3 of 0 and pi (branch boundaries) as numerical statements"])
