"""C14 - conversions between vector types match the primitive conversions lane by lane.

The clause table is generated on every run from the `as_*` methods and the `impl From/TryFrom`
headers found in the current source of every vector type (+ Quat/DQuat):
  as_*                 r[i] == self[i] as T         (every source bit pattern symbolic)
  From<V1> for V2      r[i] == T::from(v[i])        (lossless)
  TryFrom<V1> for V2   Ok(r) iff every lane's T::try_from is Ok, with those values
  From<(A, B, ..)>     lanes of the components concatenated in order, bit-for-bit
  From<BVecN[A]>       true -> 1, false -> 0
  extend / truncate / from_vec4 / Vec3<->Vec3A / Quat<->Vec4   bit-for-bit in order
An impl header that matches none of the forms is listed as uncovered (not a failure)."""
import os, re
import core
from core import Ob
import weave
from gt import ALL_VECS, BY_NAME

PROP = "C14"
LET = "xyzw"
ELEM = {v.name: (v.t, v.n) for v in ALL_VECS}
ELEM["Quat"] = ("f32", 4)
ELEM["DQuat"] = ("f64", 4)
MASKS = {"BVec2": 2, "BVec3": 3, "BVec4": 4, "BVec3A": 3, "BVec4A": 4}
SCALARS = ("f32", "f64", "i8", "u8", "i16", "u16", "i32", "u32", "i64", "u64", "usize")


def files(backend):
    out = []
    for T in ALL_VECS:
        out.append((T.name, T.file(backend), T.simd))
    out.append(("Quat", "src/f32/%s/quat.rs" % backend, True))
    out.append(("DQuat", "src/f64/dquat.rs", False))
    return out


def isfloat(t):
    return t in ("f32", "f64")


def lane(v, i):
    return "%s.to_array()[%d]" % (v, i)


def eq(a, b, t):
    # bit-exact for ints; for float targets compare bit patterns too (conversions are deterministic)
    if isfloat(t):
        return "(%s).to_bits() == (%s).to_bits()" % (a, b)
    return "(%s) == (%s)" % (a, b)


def build(config, tier):
    backend = core.CONFIGS[config]["backend"]
    obs, uncovered = [], []
    for (N, f, simd) in files(backend):
        if config != "sse2" and not simd:
            continue
        src = open(os.path.join(weave.REPO, f)).read()
        t, n = ELEM[N]
        clauses = []  # (label, pre-statements, condition)
        # as_* casts
        for m in re.finditer(r"pub (?:const )?fn (as_\w+)\(&?self\) -> (?:crate::)?(\w+)", src):
            meth, Y = m.group(1), m.group(2)
            if Y not in ELEM:
                uncovered.append("%s::%s -> %s" % (N, meth, Y))
                continue
            ty, ny = ELEM[Y]
            cond = " && ".join(eq(lane("r", i), "(%s as %s)" % (lane("v", i), ty), ty) for i in range(ny))
            clauses.append(("%s::%s lane == `as %s`" % (N, meth, ty), "let r: %s = v.%s();" % (Y, meth), cond))
        # extend / truncate / from_vec4
        m = re.search(r"pub (?:const )?fn extend\(self, \w+: (\w+)\) -> (\w+)", src)
        if m:
            Y = m.group(2)
            cond = " && ".join(eq(lane("r", i), lane("v", i), t) for i in range(n)) + " && " + eq(lane("r", n), "s", t)
            clauses.append(("%s::extend" % N, "let r: %s = v.extend(s);" % Y, cond))
        m = re.search(r"pub (?:const )?fn truncate\(self\) -> (\w+)", src)
        if m:
            Y = m.group(1)
            cond = " && ".join(eq(lane("r", i), lane("v", i), t) for i in range(n - 1))
            clauses.append(("%s::truncate" % N, "let r: %s = v.truncate();" % Y, cond))
        m = re.search(r"pub (?:const )?fn from_vec4\(v: (\w+)\) -> Self", src)
        if m:
            X = m.group(1)
            cond = " && ".join(eq(lane("r", i), lane("x4", i), t) for i in range(n))
            clauses.append(("%s::from_vec4" % N, "let x4 = mk::<%s>(); let r = %s::from_vec4(x4);" % (X, N), cond))
        # From / TryFrom impls in this file
        scalar_math = "scalar-math" in core.CONFIGS[config]["features"]
        for m in re.finditer(r"^(#\[cfg\((not\()?feature = \"scalar-math\"\)?\)\]\n)?impl (Try)?From<(.+)> for (.+) \{$", src, re.M):
            if m.group(1) and (scalar_math == bool(m.group(2))):
                continue  # impl compiled out in this configuration (#[cfg(feature = "scalar-math")] / not(..))
            tr, X, Y = m.group(3), m.group(4), m.group(5)
            label = "%sFrom<%s> for %s" % (tr or "", X, Y)
            if Y in ELEM and X in ELEM and ELEM[X][1] == ELEM[Y][1]:
                tx, nx = ELEM[X]
                ty, ny = ELEM[Y]
                if tr:
                    ok = " && ".join("<%s>::try_from(%s) == Ok(%s)" % (ty, lane("x", i), lane("r", i)) for i in range(ny))
                    err = " || ".join("<%s>::try_from(%s).is_err()" % (ty, lane("x", i)) for i in range(ny))
                    clauses.append((label, "let x = mk::<%s>();" % X, "match <%s>::try_from(x) { Ok(r) => %s, Err(_) => %s }" % (Y, ok, err)))
                else:
                    cond = " && ".join(eq(lane("r", i), "<%s>::from(%s)" % (ty, lane("x", i)), ty) for i in range(ny))
                    clauses.append((label, "let x = mk::<%s>(); let r = <%s>::from(x);" % (X, Y), cond))
            elif Y in ELEM and X in MASKS and not tr:
                ty, ny = ELEM[Y]
                one, zero = "1 as %s" % ty, "0 as %s" % ty
                cond = " && ".join(eq(lane("r", i), "(if x.test(%d) { %s } else { %s })" % (i, one, zero), ty) for i in range(ny))
                clauses.append((label, "let x = mk::<%s>(); let r = <%s>::from(x);" % (X, Y), cond))
            elif Y in ELEM and X.startswith("(") and not tr:
                comps = [c.strip() for c in X[1:-1].split(",")]
                if all(c in SCALARS for c in comps):
                    continue  # tuple of scalars: C17
                ty, ny = ELEM[Y]
                pre, parts, exp = [], [], []
                okc = True
                for k, c in enumerate(comps):
                    if c in ELEM:
                        pre.append("let c%d = mk::<%s>();" % (k, c))
                        exp += [lane("c%d" % k, i) for i in range(ELEM[c][1])]
                    elif c in SCALARS:
                        pre.append("let c%d: %s = vk::any();" % (k, c))
                        exp.append("c%d" % k)
                    else:
                        okc = False
                    parts.append("c%d" % k)
                if not okc or len(exp) != ny:
                    uncovered.append("%s: %s" % (N, label))
                    continue
                cond = " && ".join(eq(lane("r", i), exp[i], ty) for i in range(ny))
                clauses.append((label, " ".join(pre) + " let r = <%s>::from((%s));" % (Y, ", ".join(parts)), cond))
            elif X in ELEM and Y in ELEM:
                uncovered.append("%s: %s (dimension change)" % (N, label))
            elif re.match(r"^\[|^\(", X) or re.match(r"^\[|^\(", Y) or "__m128" in X + Y or X in ("Mat3", "Mat3A"):
                continue  # arrays / tuples of scalars: C17; raw register: excluded by the property; matrices: C05
            else:
                uncovered.append("%s: %s" % (N, label))
        if not clauses:
            continue
        B = 12
        quick = True  # the whole family costs < 3 CPU-minutes (lib/costs.json)
        for bi in range(0, len(clauses), B):
            chunk = clauses[bi:bi + B]
            name = "c14_%s_%s_%d" % (config, N.lower(), bi // B)
            pre = "let v = mk::<%s>(); let s: %s = vk::any();" % (N, t)
            agg = pre + "\n    let ok = " + "\n        && ".join("{ %s %s }" % (c[1], c[2]) for c in chunk) + ';\n    check!(ok, "bundle of %d conversion clauses");' % len(chunk)
            spl = pre + "\n    " + "\n    ".join('check!({ %s %s }, "%s");' % (c[1], c[2], c[0]) for c in chunk)
            desc = "%s conversions: %s" % (N, "; ".join(c[0] for c in chunk))
            obs.append(Ob(name, PROP, agg, fn="%s conversions" % N, kind="bundle", solver="cadical", stubs=["sse"], clauses=len(chunk),
                          split=name + "__split", cls="lane", tier="quick" if quick else "thorough", desc=desc[:700]))
            obs.append(Ob(name + "__split", PROP, spl, fn="%s conversions" % N, kind="bundle-split", solver="cadical", stubs=["sse"],
                          tier="quick" if quick else "thorough", desc=desc[:300]))
    if config == "sse2":
        obs.append(Ob("c14_sse2_canary_as_ivec_rounds", PROP,
                      'let v = mk::<Vec3A>(); let r = v.as_ivec3(); check!(r.to_array()[0] == (v.to_array()[0].round() as i32), "as_ivec3 rounds");',
                      fn="Vec3A::as_ivec3", kind="canary", expect="refute", desc="canary: float->int cast specified as rounding instead of truncating"))
        obs.append(Ob("c14_sse2_canary_extend_order", PROP,
                      'let v = mk::<Vec3>(); let s: f32 = vk::any(); let r = v.extend(s); check!(r.to_array()[0].to_bits() == s.to_bits(), "extend puts w first");',
                      fn="Vec3::extend", kind="canary", expect="refute", desc="canary: extend specified as prepending"))
    return obs, uncovered


def run(s):
    unc = []
    for cfg in ("sse2", "scalar"):
        obs, u = build(cfg, s.tier)
        unc += ["%s: %s" % (cfg, x) for x in u]
        s.run_config(cfg, [], obs)
    s.assumptions += [
        "Rust `as` / From / TryFrom on primitives are the specification vocabulary (the same primitive is applied to the same lane on the spec side)",
        "clauses asserted at the call site (bundled call-site obligations); conversions to/from arrays and scalar tuples are C17; masks to arrays are C15",
        "quick and thorough tier: all 40 vector types",
    ]
    return s.finish(level_note="every as_*/From/TryFrom/extend/truncate between vector types found in the current source, lane by lane, full domain",
                    trusted_base=["Kani 0.68 / CBMC 6.11 / CaDiCaL"], extra_cov={"uncovered_impls": unc},
                    not_decided=["NEON / wasm32 / core-simd builds"])
