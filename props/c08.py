"""C08 - the unused fourth lane of Vec3A / Mat3A / Affine3A / BVec3A never influences a result.

Two mechanisms:
 (1) every obligation of C01-C06, C09-C12, C14-C18 over these types is proved with a FREE SYMBOLIC
     hidden lane (mk::<Vec3A>() builds the value through Vec3A::from_vec4 of an arbitrary Vec4, Mat3A
     and Affine3A from such columns, BVec3A with both hidden-lane values a comparison can leave);
     since every spec mentions visible lanes only, `result == spec(visible)` is non-interference.
 (2) here: explicit TWO-RUN obligations for every public method of the four types found in the current
     source (signatures parsed on each run): two values with bit-identical visible lanes and
     independently symbolic hidden lanes (number, infinity, any NaN, all-ones) give bit-identical
     observable results - for every operand bit pattern, with transcendental functions uninterpreted.
     Covers functions with no functional spec of their own.  The explicit raw-register conversion
     (`From<Vec3A> for __m128`) is excluded by the property."""
import os, re
import core
from core import Ob
import weave

PROP = "C08"
UF_ALL = ["uf_sqrt", "uf_sin_cos", "uf_sin", "uf_tan", "uf_atan2", "uf_exp", "uf_powf", "uf_mul_add", "uf_div_euclid", "uf_rem_euclid", "uf_acos_approx"]
PAIRS = {"Vec3A": "mk::vec3a_pair()", "Mat3A": "mk::mat3a_pair()", "Affine3A": "mk::affine3a_pair()"}
VIS_T = set("f32 bool u32 usize Vec2 Vec3 Vec3A Vec4 Quat Mat2 Mat3 Mat3A Mat4 Affine2 Affine3A BVec3A BVec3 DVec3 IVec3 UVec3 I8Vec3 U8Vec3 I16Vec3 U16Vec3 I64Vec3 U64Vec3 USizeVec3 DMat3 DAffine3 Self".split())
SHARED = {"f32": "vk::any::<f32>()", "Vec3": "mk::<Vec3>()", "Vec2": "mk::<Vec2>()", "Vec4": "mk::<Vec4>()", "Quat": "mk::<Quat>()", "Mat3": "mk::<Mat3>()", "Mat4": "mk::<Mat4>()",
          "Mat2": "mk::<Mat2>()", "EulerRot": "crate::any_euler()", "bool": "vk::any::<bool>()"}


def vis_ok(ret):
    ret = ret.strip().replace("crate::", "")
    if ret in VIS_T:
        return True
    m = re.match(r"^\((.*)\)$", ret)
    if m:
        return all(vis_ok(x) for x in m.group(1).split(","))
    m = re.match(r"^Option<(.*)>$", ret)
    if m:
        return vis_ok(m.group(1))
    if re.match(r"^\[f32; \d+\]$", ret) or re.match(r"^\[\[f32; 3\]; \d+\]$", ret):
        return True
    return False


def build(config, tier):
    obs, uncovered = [], []
    files = {"Vec3A": "src/f32/sse2/vec3a.rs", "Mat3A": "src/f32/sse2/mat3a.rs", "Affine3A": "src/f32/affine3a.rs"}
    for N, f in files.items():
        src = open(os.path.join(weave.REPO, f)).read()
        calls = []
        for m in re.finditer(r"^    pub (?:const )?fn (\w+)(<[^>]*>)?\(\s*([^)]*?)\s*\)(?: -> ([^{]+?))? \{", src, re.M | re.S):
            fn, gen, args, ret = m.group(1), m.group(2), re.sub(r"\s+", " ", m.group(3)), (m.group(4) or "").strip()
            parts = [a.strip() for a in args.split(",") if a.strip()] if args else []
            if gen or not ret or not vis_ok(ret):
                if ret and not gen and fn not in ("col_mut",):
                    uncovered.append("%s::%s -> %s" % (N, fn, ret))
                continue
            pre, a1, a2, recv = [], [], [], None
            ok = True
            k = 0
            for a in parts:
                if a in ("self", "&self", "mut self"):
                    recv = True
                    continue
                pm = re.match(r"^(?:mut )?(\w+): &?(.+)$", a)
                ref = "&" if re.match(r"^(?:mut )?\w+: &", a) else ""
                if not pm:
                    ok = False
                    break
                ty = pm.group(2).replace("crate::", "").replace("Self", N)
                k += 1
                if ty in PAIRS:
                    pre.append("let (p%da, p%db) = %s;" % (k, k, PAIRS[ty]))
                    a1.append("%sp%da" % (ref, k))
                    a2.append("%sp%db" % (ref, k))
                elif ty in SHARED:
                    pre.append("let p%d = %s;" % (k, SHARED[ty]))
                    a1.append("%sp%d" % (ref, k))
                    a2.append("%sp%d" % (ref, k))
                elif ty == "usize":
                    pre.append("let p%d: usize = vk::any(); vk::assume(p%d < 3);" % (k, k))
                    a1.append("p%d" % k)
                    a2.append("p%d" % k)
                elif ty == "BVec3A":
                    pre.append("let p%dv: [bool; 3] = vk::any(); let p%da = BVec3A::from_array(p%dv); let p%db = mk::bvec3a_hidden(p%dv);" % (k, k, k, k, k))
                    a1.append("p%da" % k)
                    a2.append("p%db" % k)
                else:
                    ok = False
                    break
            if not ok:
                uncovered.append("%s::%s(%s)" % (N, fn, args))
                continue
            if recv:
                pre.append("let (sa, sb) = %s;" % PAIRS[N])
                c1 = "sa.%s(%s)" % (fn, ", ".join(a1))
                c2 = "sb.%s(%s)" % (fn, ", ".join(a2))
            else:
                if not any(x.endswith("a") for x in a1):
                    continue  # no padded-type input at all: nothing to vary
                c1 = "<%s>::%s(%s)" % (N, fn, ", ".join(a1))
                c2 = "<%s>::%s(%s)" % (N, fn, ", ".join(a2))
            calls.append((fn, "{ %s let r1 = %s; let r2 = %s; check!(mk::vsame(&r1, &r2), \"%s::%s\"); }" % (" ".join(pre), c1, c2, N, fn)))
        # ALL primitive arithmetic uninterpreted (stub sets sse_uf + arith_uf32, constraint encoding): two runs that
        # agree for every interpretation of + - * / sqrt ... as functions agree for the real ones; SAT cannot
        # prove two copies of a real multiplier / divider equal (every arithmetic bundle timed out that way)
        B = 1
        stubs = ["sse_uf", "arith_uf32"] + ["%s32" % u for u in UF_ALL]
        for bi in range(0, len(calls), B):
            chunk = calls[bi:bi + B]
            name = "c08_sse2_%s_tworun_%s" % (N.lower(), chunk[0][0])
            obs.append(Ob(name, PROP, "\n    ".join(c[1] for c in chunk), fn="%s::{%s}" % (N, ", ".join(c[0] for c in chunk)), kind="bundle", solver="cadical", stubs=stubs, clauses=len(chunk),
                          cls="bits", desc="%s::{%s}: bit-identical observable result for bit-identical visible lanes and independently arbitrary hidden lanes" % (N, ", ".join(c[0] for c in chunk))))
    # operators and conversions out
    hd = "let (a1, a2) = mk::vec3a_pair(); let (b1, b2) = mk::vec3a_pair(); let s: f32 = vk::any(); let q = mk::<Quat>(); let (m1, m2) = mk::mat3a_pair(); let (f1, f2) = mk::affine3a_pair();\n    "
    for (k_, txt) in enumerate((
            "check!(mk::vsame(&(a1 + b1), &(a2 + b2)) && mk::vsame(&(a1 - b1), &(a2 - b2)) && mk::vsame(&(a1 * b1), &(a2 * b2)) && mk::vsame(&(a1 / b1), &(a2 / b2)) && mk::vsame(&(a1 % b1), &(a2 % b2)) && mk::vsame(&(-a1), &(-a2)), \"vector operators\");",
            "check!(mk::vsame(&(a1 * s), &(a2 * s)) && mk::vsame(&(s * a1), &(s * a2)) && mk::vsame(&(a1 / s), &(a2 / s)) && mk::vsame(&(s / a1), &(s / a2)) && (a1 == b1) == (a2 == b2), \"scalar operators, ==\");",
            "check!(mk::vsame(&(q * a1), &(q * a2)) && mk::vsame(&(m1 * a1), &(m2 * a2)) && mk::vsame(&f1.transform_point3a(a1), &f2.transform_point3a(a2)), \"quaternion / matrix / affine action\");",
            "check!(mk::vsame(&(m1 * m1), &(m2 * m2)), \"Mat3A product\");",
            "check!(mk::vsame(&(f1 * f1), &(f2 * f2)), \"Affine3A product\");",
            "check!(mk::vsame(&Vec3::from(a1), &Vec3::from(a2)) && mk::vsame(&<[f32; 3]>::from(a1), &<[f32; 3]>::from(a2)) && mk::vsame(&Mat4::from_mat3a(m1), &Mat4::from_mat3a(m2)) && mk::vsame(&Mat4::from(f1), &Mat4::from(f2)) && mk::vsame(&Mat3::from(m1), &Mat3::from(m2)), \"conversions out\");")):
        obs.append(Ob("c08_sse2_operators_conversions_%d" % k_, PROP, hd + txt, fn="operators / conversions of the padded types", kind="lemma", solver="cadical", stubs=["sse_uf", "arith_uf32"], cls="bits",
                      desc="operators, ==, quaternion rotation, matrix/affine products and conversions out of Vec3A/Mat3A/Affine3A do not depend on hidden lanes (primitive arithmetic uninterpreted): " + txt.split('\"')[-2]))
    body = ("let v: [bool; 3] = vk::any(); let m1 = BVec3A::from_array(v); let m2 = mk::bvec3a_hidden(v); let w: [bool; 3] = vk::any(); let k1 = BVec3A::from_array(w); let k2 = mk::bvec3a_hidden(w);\n"
            "    check!(m1.bitmask() == m2.bitmask() && m1.any() == m2.any() && m1.all() == m2.all() && (m1 == k1) == (m2 == k2) && <[bool; 3]>::from(m1) == <[bool; 3]>::from(m2) && <[u32; 3]>::from(m1) == <[u32; 3]>::from(m2)\n"
            "        && (m1 & k1).bitmask() == (m2 & k2).bitmask() && (m1 | k1).bitmask() == (m2 | k2).bitmask() && (m1 ^ k1).bitmask() == (m2 ^ k2).bitmask() && (!m1).bitmask() == (!m2).bitmask() && m1.test(0) == m2.test(0) && m1.test(2) == m2.test(2), \"BVec3A observers\");\n"
            "    let a = mk::<Vec3A>(); let b = mk::<Vec3A>(); check!(mk::vsame(&Vec3A::select(m1, a, b), &Vec3A::select(m2, a, b)), \"select with a mask whose hidden lane is set\");")
    obs.append(Ob("c08_sse2_bvec3a", PROP, body, fn="BVec3A observers", kind="lemma", solver="cadical", stubs=["sse"], clauses=2, cls="bits",
                  desc="BVec3A: every observer and Vec3A::select give the same result whether the hidden lane of the mask is all-ones or zero"))
    obs.append(Ob("c08_sse2_canary_from_vec4_roundtrip", PROP,
                  'let (a1, a2) = mk::vec3a_pair(); let x: core::arch::x86_64::__m128 = a1.into(); let y: core::arch::x86_64::__m128 = a2.into(); let (p, q): ([u32; 4], [u32; 4]) = unsafe { (core::mem::transmute(x), core::mem::transmute(y)) }; check!(p[3] == q[3], "raw register hides the lane");',
                  fn="From<Vec3A> for __m128", kind="canary", expect="refute", desc="canary: the raw-register conversion DOES expose the hidden lane (shows the two runs really differ there)"))
    if os.environ.get("C08_ACK") == "ite":
        for o in obs:
            o.ack = "ite"
    return obs, uncovered


def run(s):
    obs, unc = build("sse2", s.tier)
    import props.c18 as c18
    s.run_config("sse2", [], obs, extra_rust=c18.EULER)
    s.assumptions += [
        "the lane does not exist under scalar-math; core-simd / NEON / wasm32 are not compiled by the verifier",
        "Debug/Display text is not decided; they read lanes through the contracted accessors (C17)",
        "short compositions: covered by induction - every operation's visible output is independent of hidden inputs, so hidden lanes of intermediate results cannot matter either",
    ]
    return s.finish(level_note="two-run non-interference of every public method of Vec3A/Mat3A/Affine3A/BVec3A found in the source, plus mechanism (1) in every other property",
                    trusted_base=["Kani 0.68 / CBMC 6.11 / CaDiCaL", "model/sse.rs"], extra_cov={"uncovered_functions": unc},
                    not_decided=["Debug/Display", "core-simd build"])
