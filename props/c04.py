"""C04 - quaternion algebra: Hamilton product, conjugate, rotation of vectors.

 * woven FD contracts on Quat/DQuat: + - (component-wise), * f32, / f32, unary -, conjugate
   (xyz sign bit flipped, w bit-identical), dot (sum of 4 single-rounded products, any order);
   length == sqrt(dot(q,q)) and normalize == q / length | q * (1/length) with sqrt uninterpreted.
 * exact lattice {-1,0,1}: mul_quat == Hamilton 4-tuple; q*v (Vec3 and Vec3A, symbolic hidden lane)
   == vector part of q (v,0) conj(q) (a polynomial identity valid for every q, unit or not);
   (q*p)*v == q*(p*v); (-q)*v == q*v; for the 8 lattice unit quaternions inverse undoes q*v.
 * forwarding: operator forms equal the named methods."""
import core
from core import Ob, Contract, contract_ob

PROP = "C04"
QS = [("Quat", "f32", 32, "Vec3", "Vec4", True), ("DQuat", "f64", 64, "DVec3", "DVec4", False)]


QUF = """
pub mod {mod} {{
    use glam::*; use crate::mk::*;
    static mut T_QQ: MemoV<{Q}> = MemoV::new(<{Q}>::IDENTITY);
    static mut T_QV: MemoV<{V}> = MemoV::new(<{V}>::ZERO);
    pub fn mul_quat(a: {Q}, b: {Q}) -> {Q} {{ unsafe {{ T_QQ.get(key2(a.words(), b.words()), mk()) }} }}
    pub fn mul_vec3(a: {Q}, v: {V}) -> {V} {{ unsafe {{ T_QV.get(key2(a.words(), v.words()), mk()) }} }}
}}
"""


def build(config, tier):
    backend = core.CONFIGS[config]["backend"]
    contracts, obs, extra = [], [], []
    for (Q, t, w, V3, V4, simd) in QS:
        if config != "sse2" and not simd:
            continue
        f = "src/f32/%s/quat.rs" % backend if simd else "src/f64/dquat.rs"
        ln = Q.lower()
        pre = "c04_%s_%s" % (config, ln)
        leq4 = "__verif::leq%dx4" % w
        A = ("self", "mk::<%s>()" % Q)
        Bq = ("rhs", "mk::<%s>()" % Q)
        S = ("rhs", "vk::any::<%s>()" % t)
        for (tr, m, sym) in (("Add", "add", "+"), ("Sub", "sub", "-")):
            c = Contract("<glam::%s as core::ops::%s<glam::%s>>::%s" % (Q, tr, Q, m), f, "impl %s<%s> for %s" % (tr, Q, Q), m,
                         ensures="|r: &%s| %s(r.to_array(), __verif::zip4(self.to_array(), rhs.to_array(), |a: %s, b: %s| a %s b))" % (Q, leq4, t, t, sym), props=[PROP])
            contracts.append(c)
            obs.extend(contract_ob("%s_%s" % (pre, m), PROP, c, [A, Bq], "self_ %s rhs" % sym, solver="cvc5", stubs=["sse"], desc="%s %s %s is component-wise" % (Q, sym, Q)))
        for (tr, m, sym) in (("Mul", "mul", "*"), ("Div", "div", "/")):
            c = Contract("<glam::%s as core::ops::%s<%s>>::%s" % (Q, tr, t, m), f, "impl %s<%s> for %s" % (tr, t, Q), m,
                         ensures="|r: &%s| %s(r.to_array(), __verif::map4(self.to_array(), |a: %s| a %s rhs))" % (Q, leq4, t, sym), props=[PROP])
            contracts.append(c)
            obs.extend(contract_ob("%s_%s_scalar" % (pre, m), PROP, c, [A, S], "self_ %s rhs" % sym, solver="cvc5", stubs=["sse"], desc="%s %s %s is component-wise" % (Q, sym, t)))
        c = Contract("<glam::%s as core::ops::Neg>::neg" % Q, f, "impl Neg for %s" % Q, "neg",
                     ensures="|r: &%s| %s(r.to_array(), __verif::map4(self.to_array(), |a: %s| -a))" % (Q, leq4, t), props=[PROP])
        contracts.append(c)
        obs.extend(contract_ob("%s_neg" % pre, PROP, c, [A], "-self_", solver="cadical", stubs=["sse"], desc="-%s negates every component" % Q))
        sign = "0x8000_0000" if w == 32 else "0x8000_0000_0000_0000"
        c = Contract("glam::%s::conjugate" % Q, f, "impl %s" % Q, "conjugate",
                     ensures="|r: &%s| r.to_array()[0].to_bits() == (self.to_array()[0].to_bits() ^ %s) && r.to_array()[1].to_bits() == (self.to_array()[1].to_bits() ^ %s) && r.to_array()[2].to_bits() == (self.to_array()[2].to_bits() ^ %s) && r.to_array()[3].to_bits() == self.to_array()[3].to_bits()" % (Q, sign, sign, sign), props=[PROP])
        contracts.append(c)
        obs.extend(contract_ob("%s_conjugate" % pre, PROP, c, [A], "self_.conjugate()", solver="cadical", stubs=["sse"], cls="bits",
                               desc="%s::conjugate flips exactly the sign bit of x, y, z and leaves w bit-identical" % Q))
        obs.extend(core.tree_obs("%s_dot" % pre, PROP, "let a = mk::<%s>(); let b = mk::<%s>(); let r = a.dot(b);" % (Q, Q), [("r", ["a.to_array()[%d] * b.to_array()[%d]" % (i, i) for i in range(4)])], w,
                                 fn="%s::dot" % Q, desc="%s::dot is the sum of the four single-rounded component products (any association order)" % Q))
        # length / normalize with uninterpreted sqrt (lemma form)
        body = ("let q = mk::<{Q}>(); let d = q.dot(q); let l = q.length(); let s = crate::uf::sqrt_f{w}(d);\n"
                "    check!(__verif::leq{w}(l, s), \"length == sqrt(dot(q,q))\");\n"
                "    let n = q.normalize().to_array(); let a = q.to_array(); let rc = (1.0 as {t}) / s;\n"
                "    check!({lanes}, \"normalize lanes are q[i]/len or q[i]*(1/len)\");").format(
            Q=Q, w=w, t=t, lanes=" && ".join("(__verif::leq%d(n[%d], a[%d] / s) || __verif::leq%d(n[%d], a[%d] * rc))" % (w, i, i, w, i, i) for i in range(4)))
        obs.append(Ob("%s_length_normalize" % pre, PROP, body, fn="%s::length / normalize" % Q, kind="lemma", solver="cvc5", stubs=["sse", "uf_sqrt%d" % w], clauses=2, cls="structure",
                      tier="quick" if Q == "Quat" else "thorough",
                      desc="%s: length == sqrt(dot(q,q)), normalize lanes == q[i]/length or q[i]*(1/length); sqrt uninterpreted (shared symbol)" % Q))
        # ---- lattice
        eqi = "sp::eqi%d" % w
        fx = "sp::f%dx" % w
        qc = lambda qi: "<%s>::from_array(%s4(%s))" % (Q, fx, qi)
        body = "let ai = sp::lat4(1); let bi = sp::lat4(1); let a = %s; let b = %s; let r = a.mul_quat(b).to_array(); let e = sp::hamilton(ai, bi);\n    check!(%s, \"Hamilton product exact\");" % (
            qc("ai"), qc("bi"), " && ".join("%s(r[%d], e[%d])" % (eqi, i, i) for i in range(4)))
        ltier = "quick" if Q == "Quat" else "thorough"
        obs.append(Ob("%s_lat_mul_quat" % pre, PROP, body, fn="%s::mul_quat" % Q, kind="lemma", solver="cadical", stubs=["sse"], cls="lattice", tier=ltier,
                      desc="%s::mul_quat on components in {-1,0,1}: the exact Hamilton 4-tuple" % Q))
        vforms = [("mul_vec3", V3, lambda vi: "<%s>::from_array(%s3(%s))" % (V3, fx, vi))]
        if Q == "Quat":
            vforms.append(("mul_vec3a", "Vec3A", lambda vi: "mk::vec3a_of(sp::f32x3(%s))" % vi))
        for (m, V, vc) in vforms:
            for lane in range(3):
                body = "let qi = sp::lat4(1); let vi = sp::lat3(1); let q = %s; let v = %s; let r = q.%s(v).to_array(); let e = sp::qrot(qi, vi);\n    check!(%s(r[%d], e[%d]), \"q*v == vector part of q v q* (lane %d)\");" % (
                    qc("qi"), vc("vi"), m, eqi, lane, lane, lane)
                obs.append(Ob("%s_lat_%s_l%d" % (pre, m, lane), PROP, body, fn="%s::%s" % (Q, m), kind="lemma", solver="cadical", stubs=["sse"], cls="lattice", tier=ltier,
                              desc="%s::%s lane %d on the lattice {-1,0,1}: exactly the vector part of q (v,0) conj(q) (polynomial identity for every q)" % (Q, m, lane)))
        m0, V0, vc0 = vforms[-1]
        body = "let qi = sp::lat4(1); let pi = sp::lat4(1); let vi = sp::lat3(1); let q = %s; let p = %s; let v = %s;\n    let l = (q * p) * v; let r = q * (p * v); let e = sp::qrot(qi, sp::qrot(pi, vi));\n    check!(%s, \"(q*p)*v == q*(p*v)\");" % (
            qc("qi"), qc("pi"), vc0("vi"), " && ".join("%s(l.to_array()[%d], e[%d]) && %s(r.to_array()[%d], e[%d])" % (eqi, i, i, eqi, i, i) for i in range(3)))
        obs.append(Ob("%s_lat_assoc" % pre, PROP, body, fn="%s (q*p)*v" % Q, kind="lemma", solver="cadical", stubs=["sse"], cls="lattice", tier="thorough",
                      desc="%s: (q*p)*v == q*(p*v) == exact integer vector on the lattice" % Q))
        body = "let qi = sp::lat4(1); let vi = sp::lat3(1); let q = %s; let v = %s; let a = (q * v).to_array(); let b = ((-q) * v).to_array();\n    check!(%s, \"q and -q act alike\");" % (
            qc("qi"), vc0("vi"), " && ".join("a[%d] == b[%d]" % (i, i) for i in range(3)))
        obs.append(Ob("%s_lat_neg_same" % pre, PROP, body, fn="%s (-q)*v" % Q, kind="lemma", solver="cadical", stubs=["sse"], cls="lattice", tier=ltier,
                      desc="%s: q and -q rotate every lattice vector identically" % Q))
        body = "let qi = sp::lat4(1); vk::assume(sp::norm2(qi) == 1); let vi = sp::lat3(1); let q = %s; let v = %s; let r = (q.inverse() * (q * v)).to_array();\n    check!(%s, \"inverse undoes\");" % (
            qc("qi"), vc0("vi"), " && ".join("%s(r[%d], vi[%d])" % (eqi, i, i) for i in range(3)))
        obs.append(Ob("%s_lat_inverse" % pre, PROP, body, fn="%s::inverse" % Q, kind="lemma", solver="cadical", stubs=["sse"], cls="lattice", tier=ltier,
                      desc="%s: for the 8 unit quaternions of the lattice, q.inverse()*(q*v) == v exactly" % Q))
        # forwarding: operator forms == named methods (named methods uninterpreted, plain crate)
        mod = "quf_%s_%s" % (config, ln)
        extra.append(QUF.format(mod=mod, Q=Q, V=V3))
        P = "glam::%s" % Q
        st = ["sse", ("%s::mul_quat" % P, "crate::%s::mul_quat" % mod), ("%s::mul_vec3" % P, "crate::%s::mul_vec3" % mod)]
        fw = "let a = mk::<%s>(); let b = mk::<%s>(); let v = mk::<%s>();\n    check!(mk::same(a * b, a.mul_quat(b)), \"q * p == mul_quat\"); check!(mk::same(a * v, a.mul_vec3(v)), \"q * v == mul_vec3\");\n    { let mut x = a; x *= b; check!(mk::same(x, a.mul_quat(b)), \"*=\"); }" % (Q, Q, V3)
        obs.append(Ob("%s_forwarding" % pre, PROP, fw, fn="%s operators" % Q, kind="lemma", solver="cadical", stubs=st, plain=True, clauses=3, cls="forwarding",
                      desc="%s operator forms equal the named methods bit-for-bit (named methods uninterpreted)" % Q))
    if config == "sse2":
        obs.append(Ob("c04_sse2_canary_mul_quat_swapped", PROP,
                      'let ai = sp::lat4(1); let bi = sp::lat4(1); let a = Quat::from_array(sp::f32x4(ai)); let b = Quat::from_array(sp::f32x4(bi)); let r = a.mul_quat(b).to_array(); let e = sp::hamilton(bi, ai); check!(sp::eqi32(r[0], e[0]) && sp::eqi32(r[1], e[1]) && sp::eqi32(r[2], e[2]), "operands swapped");',
                      fn="Quat::mul_quat", kind="canary", expect="refute", desc="canary: Hamilton product with the operands swapped"))
    return contracts, obs, "\n".join(extra)


def run(s):
    for cfg in ("sse2", "scalar"):
        contracts, obs, extra = build(cfg, s.tier)
        s.run_config(cfg, contracts, obs, extra_rust=extra)
    s.assumptions += [
        "A3: off the lattice the result is the verified expression tree evaluated in floating point (rounding bound assumed, not machine-checked)",
        "A4: polynomial-on-a-grid uniqueness (degree <= 2 per variable on {-1,0,1}); length preservation and 'few eps * |v|' are corollaries, not machine-checked",
        "A5: sqrt is an uninterpreted function shared by code and spec",
    ]
    return s.finish(level_note="FD component-wise contracts, conjugate bit contract, dot tree_in; exact-lattice Hamilton product and rotation identities",
                    trusted_base=["Kani 0.68 / CBMC 6.11 / CaDiCaL; cvc5 for same-expression FD obligations", "model/sse.rs"],
                    not_decided=["rounding error bounds for random unit / non-unit quaternions", "core-simd / NEON / wasm32 builds"])
