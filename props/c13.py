"""C13 - integer vectors are the exact lane-wise lift of Rust integer semantics.

Clauses are generated from the `pub fn` / `impl` lists of the 27 integer vector source files and an
operation -> primitive dictionary; a public function with no dictionary entry is reported as
uncovered (not a failure).  Every clause is over the FULL domain of every lane (all widths), in
the overflow-checking profile Kani compiles:
  * value clauses: under the precondition that no lane's primitive panics, the call does not panic
    (any reachable panic is a failed check) and each lane / the reduction equals the primitive;
  * checked_*: is_some() == every lane's checked primitive is_some(), and the values;
  * must-panic clauses (`kani::should_panic` + unreachable cover): if some lane's primitive panics
    (overflow, division by zero, MIN / -1, shift >= width) the call never returns.
Same-expression multiplications / divisions of 32/64-bit lanes go to cvc5, everything else to SAT."""
import os, re
import core
from core import Ob
import weave
from gt import INT_VECS, INT_PREFIX

PROP = "C13"
LET = "xyzw"
BITS = {"i8": 8, "u8": 8, "i16": 16, "u16": 16, "i32": 32, "u32": 32, "i64": 64, "u64": 64, "usize": 64}
PFX = dict(INT_PREFIX)


def wide(t):
    if BITS[t] <= 16:
        return "i64"
    if BITS[t] == 32:
        return "i128"
    return "i128" if t[0] == "i" else "u128"


def A(v, i):
    return "%s.to_array()[%d]" % (v, i)


def alll(n, f):
    return " && ".join("(%s)" % f(i) for i in range(n))


def anyl(n, f):
    return "(" + " || ".join("(%s)" % f(i) for i in range(n)) + ")"


SAME_BIN = {  # method -> (no-panic precondition on lanes a,b or None, hard)
    "wrapping_add": (None, False), "wrapping_sub": (None, False), "wrapping_mul": (None, True),
    "wrapping_div": ("{a}.checked_div({b}).is_some() || ({b} != 0)", True), "saturating_add": (None, False), "saturating_sub": (None, False),
    "saturating_mul": (None, True), "saturating_div": ("{b} != 0", True),
    "min": (None, False), "max": (None, False),
    "div_euclid": ("{a}.checked_div_euclid({b}).is_some()", True), "rem_euclid": ("{a}.checked_rem_euclid({b}).is_some()", True),
    "wrapping_add_unsigned": (None, False), "wrapping_sub_unsigned": (None, False),
    "saturating_add_unsigned": (None, False), "saturating_sub_unsigned": (None, False),
    "wrapping_add_signed": (None, False), "saturating_add_signed": (None, False),
    "wrapping_sub_signed": (None, False), "saturating_sub_signed": (None, False),
}
CHECKED_BIN = {"checked_add": False, "checked_sub": False, "checked_mul": True, "checked_div": True,
               "checked_add_unsigned": False, "checked_sub_unsigned": False, "checked_add_signed": False, "checked_sub_signed": False}
OPS = {"Add": ("add", "+", "checked_add", False), "Sub": ("sub", "-", "checked_sub", False), "Mul": ("mul", "*", "checked_mul", True),
       "Div": ("div", "/", "checked_div", True), "Rem": ("rem", "%", "checked_rem", True)}
BITOPS = {"BitAnd": "&", "BitOr": "|", "BitXor": "^"}
SKIP = set("new splat map select from_array to_array from_slice write_to_slice extend truncate with_x with_y with_z with_w "
           "dot_into_vec".split())  # covered by C17 / C14 / C15, or trivial wrappers


def build(config, tier):
    obs, uncovered, undecidable = [], [], []
    for T in INT_VECS:
        N, n, t = T.name, T.n, T.t
        src = open(os.path.join(weave.REPO, T.file("sse2"))).read()
        signed = t[0] == "i"
        bits = BITS[t]
        W = wide(t)
        big = bits >= 16
        easy, hard = [], []   # (label, pre, stmt, cond)
        panic_obs = []

        def put(label, pre, stmt, cond, is_hard=False):
            (hard if (is_hard and big) else easy).append((label, pre, stmt, cond))

        meths = re.findall(r"^    pub (?:const )?fn (\w+)(?:<\w+>)?\(([^)]*)\) -> ([^{]+?) \{", src, re.M)
        for (m, args, ret) in meths:
            ret = ret.strip()
            am = re.match(r"^(?:mut )?self(?:, (\w+): ([\w:]+))?(?:, (\w+): ([\w:]+))?$", args.strip())
            if m in SKIP or m.startswith("as_") or m.startswith("cmp"):
                continue
            if m in SAME_BIN and am:
                U = am.group(2).replace("crate::", "").replace("Self", N)
                pre_t, is_hard = SAME_BIN[m]
                pre = alll(n, lambda i: pre_t.format(a=A("v", i), b=A("u", i))) if pre_t else "true"
                cond = alll(n, lambda i: "%s == %s.%s(%s)" % (A("r", i), A("v", i), m, A("u", i)))
                put("%s::%s" % (N, m), pre, "let u = mk::<%s>(); " % U, (pre, "let r = v.%s(u);" % m, cond), is_hard)
                if pre_t:
                    panic_obs.append((m, "let u = mk::<%s>(); vk::assume(!(%s)); let _r = v.%s(u);" % (U, pre, m),
                                      "%s::%s panics when a lane's primitive does" % (N, m)))
            elif m in CHECKED_BIN and am:
                U = am.group(2).replace("crate::", "").replace("Self", N)
                cond = "match v.%s(u) { Some(r) => %s, None => %s }" % (
                    m, alll(n, lambda i: "%s.%s(%s) == Some(%s)" % (A("v", i), m, A("u", i), A("r", i))),
                    anyl(n, lambda i: "%s.%s(%s).is_none()" % (A("v", i), m, A("u", i))))
                put("%s::%s" % (N, m), "true", "let u = mk::<%s>(); " % U, ("true", "", cond), CHECKED_BIN[m])
            elif m == "abs":
                pre = alll(n, lambda i: "%s.checked_abs().is_some()" % A("v", i))
                put("%s::abs" % N, pre, "", (pre, "let r = v.abs();", alll(n, lambda i: "%s == %s.abs()" % (A("r", i), A("v", i)))))
                panic_obs.append(("abs", "vk::assume(!(%s)); let _r = v.abs();" % pre, "%s::abs panics on MIN" % N))
            elif m == "signum":
                put("%s::signum" % N, "true", "", ("true", "let r = v.signum();", alll(n, lambda i: "%s == %s.signum()" % (A("r", i), A("v", i)))))
            elif m == "clamp":
                pre = alll(n, lambda i: "%s <= %s" % (A("lo", i), A("hi", i)))
                put("%s::clamp" % N, pre, "let lo = mk::<%s>(); let hi = mk::<%s>(); " % (N, N),
                    (pre, "let r = v.clamp(lo, hi);", alll(n, lambda i: "%s == %s.clamp(%s, %s)" % (A("r", i), A("v", i), A("lo", i), A("hi", i)))))
            elif m in ("min_element", "max_element"):
                f = m[:3]
                fold = A("v", 0) + "".join(".%s(%s)" % (f, A("v", i)) for i in range(1, n))
                put("%s::%s" % (N, m), "true", "", ("true", "let r = v.%s();" % m, "r == %s" % fold))
            elif m in ("min_position", "max_position"):
                put("%s::%s" % (N, m), "true", "", ("true", "let r = v.%s();" % m, "__verif::is_%s_pos%d(v.to_array(), r)" % (m[:3], n)))
            elif m == "is_negative_bitmask":
                put("%s::%s" % (N, m), "true", "", ("true", "let r = v.is_negative_bitmask();",
                                                   "r == __verif::bm%d([%s])" % (n, ", ".join("%s < 0" % A("v", i) for i in range(n)))))
            elif m in ("element_sum", "element_product", "dot", "length_squared", "distance_squared", "cross"):
                # same-width specification. Products p_i = checked_mul (the code's own multiplications); a sum is
                # overflow-free in EVERY association order iff the sum of its positive terms and the sum of its
                # negative terms both fit (checked_add chains of same-signed terms are order independent).
                zero = "(0 as %s)" % t
                if (bits >= 16 and m in ("cross", "element_product")) or (bits >= 32 and m in ("length_squared", "distance_squared")) or (bits == 64 and m == "dot"):
                    # measured: cvc5 and CaDiCaL both exceed the timeout on these multi-term 32/64-bit products
                    undecidable.append("%s::%s (multi-term %d-bit products: solver limit)" % (N, m, bits))
                    continue

                def anyorder(terms):
                    pos = "Some(%s)" % zero
                    neg = "Some(%s)" % zero
                    for x in terms:
                        pos = "%s.and_then(|s| s.checked_add(if %s > 0 { %s } else { 0 }))" % (pos, x, x)
                        neg = "%s.and_then(|s| s.checked_add(if %s < 0 { %s } else { 0 }))" % (neg, x, x)
                    return "(%s).is_some() && (%s).is_some()" % (pos, neg)

                def wsum(terms):
                    e = terms[0]
                    for x in terms[1:]:
                        e = "%s.wrapping_add(%s)" % (e, x)
                    return e

                if m == "element_sum":
                    terms = [A("v", i) for i in range(n)]
                    pre = anyorder(terms)
                    put("%s::element_sum" % N, pre, "", (pre, "let r = v.element_sum();", "r == %s" % wsum(terms)))
                elif m == "element_product":
                    chain = "Some(%s)" % A("v", 0)
                    for i in range(1, n):
                        chain = "%s.and_then(|p| p.checked_mul(%s))" % (chain, A("v", i))
                    pre = "(%s).is_some()" % chain
                    val = A("v", 0) + "".join(".wrapping_mul(%s)" % A("v", i) for i in range(1, n))
                    put("%s::element_product" % N, pre, "", (pre, "let r = v.element_product();", "r == %s" % val), True)
                elif m in ("dot", "length_squared"):
                    other = "u" if m == "dot" else "v"
                    stmt0 = "let u = mk::<%s>(); " % N if m == "dot" else ""
                    call = "v.dot(u)" if m == "dot" else "v.length_squared()"
                    prods_ok = alll(n, lambda i: "%s.checked_mul(%s).is_some()" % (A("v", i), A(other, i)))
                    terms = ["%s.wrapping_mul(%s)" % (A("v", i), A(other, i)) for i in range(n)]
                    pre = "%s && %s" % (prods_ok, anyorder(terms))
                    put("%s::%s" % (N, m), pre, stmt0, (pre, "let r = %s;" % call, "r == %s" % wsum(terms)), True)
                elif m == "distance_squared":
                    diffs_ok = alll(n, lambda i: "%s.checked_sub(%s).is_some()" % (A("v", i), A("u", i)))
                    d = ["%s.wrapping_sub(%s)" % (A("v", i), A("u", i)) for i in range(n)]
                    prods_ok = alll(n, lambda i: "%s.checked_mul(%s).is_some()" % (d[i], d[i]))
                    terms = ["%s.wrapping_mul(%s)" % (d[i], d[i]) for i in range(n)]
                    pre = "%s && %s && %s" % (diffs_ok, prods_ok, anyorder(terms))
                    put("%s::distance_squared" % N, pre, "let u = mk::<%s>(); " % N, (pre, "let r = v.distance_squared(u);", "r == %s" % wsum(terms)), True)
                else:
                    idx = [(1, 2), (2, 0), (0, 1)]
                    P = lambda i, j: (A("v", i), A("u", j))
                    Q = lambda i, j: (A("u", i), A("v", j))
                    pre = alll(3, lambda k: "%s.checked_mul(%s).is_some() && %s.checked_mul(%s).is_some() && %s.wrapping_mul(%s).checked_sub(%s.wrapping_mul(%s)).is_some()" % (
                        P(*idx[k]) + Q(*idx[k]) + P(*idx[k]) + Q(*idx[k])))
                    cond = alll(3, lambda k: "%s == %s.wrapping_mul(%s).wrapping_sub(%s.wrapping_mul(%s))" % ((A("r", k),) + P(*idx[k]) + Q(*idx[k])))
                    put("%s::cross" % N, pre, "let u = mk::<%s>(); " % N, (pre, "let r = v.cross(u);", cond), True)
            elif m in ("manhattan_distance", "checked_manhattan_distance", "chebyshev_distance"):
                ut = ret.replace("Option<", "").replace(">", "")
                Wd = "u128"
                ds = ["(%s.abs_diff(%s) as %s)" % (A("v", i), A("u", i), Wd) for i in range(n)]
                total = " + ".join(ds)
                if m == "manhattan_distance":
                    pre = "(%s) <= (%s::MAX as %s)" % (total, ut, Wd)
                    put("%s::%s" % (N, m), pre, "let u = mk::<%s>(); " % N, (pre, "let r = v.manhattan_distance(u);", "(r as %s) == (%s)" % (Wd, total)))
                    panic_obs.append((m, "let u = mk::<%s>(); vk::assume(!(%s)); let _r = v.manhattan_distance(u);" % (N, pre), "%s::manhattan_distance panics when the sum overflows" % N))
                elif m == "checked_manhattan_distance":
                    cond = "match v.checked_manhattan_distance(u) { Some(r) => (r as %s) == (%s), None => (%s) > (%s::MAX as %s) }" % (Wd, total, total, ut, Wd)
                    put("%s::%s" % (N, m), "true", "let u = mk::<%s>(); " % N, ("true", "", cond))
                else:
                    mx = ds[0] + "".join(".max(%s)" % d for d in ds[1:])
                    put("%s::%s" % (N, m), "true", "let u = mk::<%s>(); " % N, ("true", "let r = v.chebyshev_distance(u);", "(r as %s) == %s" % (Wd, mx)))
            else:
                uncovered.append("%s::%s" % (N, m))
        # operators
        for tr, (m, sym, chk, is_hard) in OPS.items():
            if not re.search(r"^impl %s<%s> for %s \{" % (tr, N, N), src, re.M):
                uncovered.append("%s: impl %s missing" % (N, tr))
                continue
            pre_vv = alll(n, lambda i: "%s.%s(%s).is_some()" % (A("v", i), chk, A("u", i)))
            pre_vs = alll(n, lambda i: "%s.%s(s).is_some()" % (A("v", i), chk))
            pre_sv = alll(n, lambda i: "s.%s(%s).is_some()" % (chk, A("u", i)))
            put("%s %s %s" % (N, sym, N), pre_vv, "let u = mk::<%s>(); " % N, (pre_vv, "let r = v %s u; let mut q = v; q %s= u;" % (sym, sym),
                alll(n, lambda i: "%s == %s %s %s" % (A("r", i), A("v", i), sym, A("u", i))) + " && mk::same(q, r) && mk::same(v %s &u, r) && mk::same(&v %s &u, r) && mk::same(&v %s u, r) && { let mut q2 = v; q2 %s= &u; mk::same(q2, r) }" % (sym, sym, sym, sym)), is_hard)
            put("%s %s %s" % (N, sym, t), pre_vs, "let s: %s = vk::any(); " % t, (pre_vs, "let r = v %s s; let mut q = v; q %s= s;" % (sym, sym),
                alll(n, lambda i: "%s == %s %s s" % (A("r", i), A("v", i), sym)) + " && mk::same(q, r) && mk::same(v %s &s, r) && mk::same(&v %s &s, r) && mk::same(&v %s s, r) && { let mut q2 = v; q2 %s= &s; mk::same(q2, r) }" % (sym, sym, sym, sym)), is_hard)
            put("%s %s %s" % (t, sym, N), pre_sv, "let u = mk::<%s>(); let s: %s = vk::any(); " % (N, t), (pre_sv, "let r = s %s u;" % sym,
                alll(n, lambda i: "%s == s %s %s" % (A("r", i), sym, A("u", i))) + " && mk::same(s %s &u, r) && mk::same(&s %s &u, r) && mk::same(&s %s u, r)" % (sym, sym, sym)), is_hard)
            panic_obs.append(("op_%s_vv" % m, "let u = mk::<%s>(); vk::assume(!(%s)); let _r = v %s u;" % (N, pre_vv, sym), "%s %s %s panics when a lane's primitive does" % (N, sym, N)))
            panic_obs.append(("op_%s_vs" % m, "let s: %s = vk::any(); vk::assume(!(%s)); let _r = v %s s;" % (t, pre_vs, sym), "%s %s %s panics when a lane's primitive does" % (N, sym, t)))
        if signed and re.search(r"^impl Neg for %s \{" % N, src, re.M):
            pre = alll(n, lambda i: "%s.checked_neg().is_some()" % A("v", i))
            put("-%s" % N, pre, "", (pre, "let r = -v;", alll(n, lambda i: "%s == -%s" % (A("r", i), A("v", i)))))
            panic_obs.append(("op_neg", "vk::assume(!(%s)); let _r = -v;" % pre, "-%s panics on MIN" % N))
        if re.search(r"^impl Not for %s \{" % N, src, re.M):
            put("!%s" % N, "true", "", ("true", "let r = !v;", alll(n, lambda i: "%s == !%s" % (A("r", i), A("v", i)))))
        for tr, sym in BITOPS.items():
            if re.search(r"^impl %s for %s \{" % (tr, N), src, re.M):
                put("%s %s %s" % (N, sym, N), "true", "let u = mk::<%s>(); " % N, ("true", "let r = v %s u;" % sym, alll(n, lambda i: "%s == %s %s %s" % (A("r", i), A("v", i), sym, A("u", i)))))
            if re.search(r"^impl %s<%s> for %s \{" % (tr, t, N), src, re.M):
                put("%s %s %s" % (N, sym, t), "true", "let s: %s = vk::any(); " % t, ("true", "let r = v %s s;" % sym, alll(n, lambda i: "%s == %s %s s" % (A("r", i), A("v", i), sym))))
        for sm in re.finditer(r"^impl (Shl|Shr)<([\w:]+)> for %s \{" % N, src, re.M):
            tr, R = sm.group(1), sm.group(2).replace("crate::", "")
            sym = "<<" if tr == "Shl" else ">>"
            if R in BITS:
                inr = "((s as i128) >= 0 && (s as i128) < %d)" % bits
                put("%s %s %s" % (N, sym, R), inr, "let s: %s = vk::any(); " % R, (inr, "let r = v %s s;" % sym, alll(n, lambda i: "%s == %s %s s" % (A("r", i), A("v", i), sym))))
                if R in ("i32", "u64"):
                    panic_obs.append(("op_%s_%s" % (tr.lower(), R), "let s: %s = vk::any(); vk::assume(!%s); let _r = v %s s;" % (R, inr, sym), "%s %s %s panics for a shift count outside 0..%d" % (N, sym, R, bits)))
            else:
                inr = alll(n, lambda i: "((%s as i128) >= 0 && (%s as i128) < %d)" % (A("u", i), A("u", i), bits))
                put("%s %s %s" % (N, sym, R), inr, "let u = mk::<%s>(); " % R, (inr, "let r = v %s u;" % sym, alll(n, lambda i: "%s == %s %s %s" % (A("r", i), A("v", i), sym, A("u", i)))))
        # Sum / Product: bounded stand-in
        # ---- emit bundles
        quick = t in ("i32", "u8", "i64") or n == 4 and t in ("u16",)
        tr_ = "quick" if quick else "thorough"
        for (grp, cl, solver, B) in (("e", easy, "cadical", 10 if bits > 8 else 6), ("h", hard, "cvc5", 1)):
            for bi in range(0, len(cl), B):
                chunk = cl[bi:bi + B]
                name = "c13_%s_%s_%s%d" % (config, N.lower(), grp, bi // B)
                head = "let v = mk::<%s>();" % N
                items = []
                for (label, pre, stmt, (p2, call, cond)) in chunk:
                    items.append((label, "{ %s if %s { %s %s } else { true } }" % (stmt, p2, call, cond)))
                agg = head + "\n    let ok = " + "\n        && ".join(x[1] for x in items) + ';\n    check!(ok, "bundle of %d integer-lift clauses");' % len(items)
                spl = head + "\n    " + "\n    ".join('check!(%s, "%s");' % (x[1], x[0]) for x in items)
                desc = "%s: %s" % (N, "; ".join(x[0] for x in items))
                tt = "thorough" if (grp == "h" and bits == 64) else tr_
                obs.append(Ob(name, PROP, agg, fn="%s integer ops" % N, kind="bundle", solver=solver, stubs=[], clauses=len(items), split=name + "__split",
                              cls="lane", tier=tt, desc=desc[:700]))
                obs.append(Ob(name + "__split", PROP, spl, fn="%s integer ops" % N, kind="bundle-split", solver=solver, stubs=[], tier=tt, desc=desc[:300]))
        for (pn, body, desc) in panic_obs:
            if body is None:
                continue
            heavy = any(k in pn for k in ("mul", "div", "rem", "euclid"))
            obs.append(Ob("c13_%s_%s_panic_%s" % (config, N.lower(), pn), PROP, "let v = mk::<%s>(); %s" % (N, body), fn="%s %s" % (N, pn), kind="panic",
                          solver="cvc5" if (heavy and bits >= 32) else "cadical",
                          stubs=[], panic=True, cls="control", tier=tr_ if (pn.startswith("op_") and not (heavy and bits == 64)) else "thorough", desc=desc))
    obs.append(Ob("c13_%s_canary_wrapping_is_saturating" % config, PROP,
                  'let v = mk::<I8Vec2>(); let u = mk::<I8Vec2>(); let r = v.wrapping_add(u); check!(r.to_array()[0] == v.to_array()[0].saturating_add(u.to_array()[0]), "wrapping == saturating");',
                  fn="I8Vec2::wrapping_add", kind="canary", expect="refute", stubs=[], desc="canary: wrapping_add specified as saturating_add"))
    obs.append(Ob("c13_%s_canary_add_never_panics" % config, PROP,
                  'let v = mk::<IVec3>(); let u = mk::<IVec3>(); let r = v + u; check!(r.to_array()[0] == v.to_array()[0].wrapping_add(u.to_array()[0]), "add wraps");',
                  fn="IVec3 + IVec3", kind="canary", expect="refute", stubs=[], desc="canary: + claimed total (no overflow panic)"))
    return obs, uncovered, undecidable


def run(s):
    obs, unc, und = build("sse2", s.tier)
    s.run_config("sse2", [], obs)
    s.assumptions += [
        "overflow-checking (debug) profile only: Kani compiles with overflow checks on; the release profile is not covered",
        "reductions (dot, length_squared, element_sum/product, cross, distance_squared, manhattan_distance) are specified exactly in a wider integer type "
        "under the precondition that the sum of magnitudes fits (so every association order is overflow-free); their exact panic boundary is not claimed",
        "Sum/Product over iterators: not covered here (iterator folds need unwinding)",
        "integer vector sources are configuration independent (no SIMD backend); proved once, in the default build",
        "quick tier: i32, i64, u8 families and U16Vec4; thorough: all 27 types and all must-panic clauses",
    ]
    return s.finish(level_note="generated full-domain lane-lift clauses for the 27 integer vector types (value, checked_, must-panic)",
                    trusted_base=["Kani 0.68 / CBMC 6.11 / CaDiCaL; CBMC SMT2 back end + cvc5 for wide multipliers/dividers"],
                    extra_cov={"uncovered_functions": unc, "not_decided_functions": und},
                    not_decided=["cross/element_product of the 16/32/64-bit types, length_squared/distance_squared of the 32/64-bit types and dot of the 64-bit types (solver limit; listed under not_decided_functions)", "release profile (overflow checks off)", "Sum/Product over iterators", "exact panic boundary of multi-term reductions"])
