"""C17 - all element access paths of a vector or quaternion see the same N lanes.

Abstract view: view(v) = bits of v.to_array().  Which constructors / read paths / write paths a type
has is detected from its CURRENT source file on every run (regex over `pub fn`/`impl` headers), so
a path added to the source without a clause is listed as uncovered rather than silently skipped.
  constructors: view(ctor(a..)) == a            (new, splat, from_array, from_slice, From<array>, From<tuple>, free fn, constants)
  reads:        path(v)[i] bits== view(v)[i]    (.x .. through Deref, Index, to_array, Into<array>, Into<tuple>, AsRef, write_to_slice)
  writes:       view(after) == view(before)[i := s]  for EVERY lane (full-view postcondition: frame included)
Because every write clause is over the whole view, any finite history of reads and writes is
covered by induction over the clauses; a symbolic 3-step history lemma is kept as a sanity check."""
import os, re
import core
from core import Ob
import weave
from gt import ALL_VECS, VT

PROP = "C17"
LET = "xyzw"


def types(backend):
    ts = []
    for T in ALL_VECS:
        ts.append((T.name, T.n, T.t, T.file(backend), T.simd, T.lname))
    ts.append(("Quat", 4, "f32", "src/f32/%s/quat.rs" % backend, True, "quat"))
    ts.append(("DQuat", 4, "f64", "src/f64/dquat.rs", False, "dquat"))
    return ts


CONST_VALUES = {  # name -> lane expression generator (t, n, i)
    "ZERO": lambda t, n, i: "0 as %s" % t, "ONE": lambda t, n, i: "1 as %s" % t,
    "NEG_ONE": lambda t, n, i: "(0 as %s) - (1 as %s)" % (t, t) if t[0] != "u" else None,
    "MIN": lambda t, n, i: "%s::MIN" % t, "MAX": lambda t, n, i: "%s::MAX" % t,
    "NAN": lambda t, n, i: "%s::NAN" % t, "INFINITY": lambda t, n, i: "%s::INFINITY" % t,
    "NEG_INFINITY": lambda t, n, i: "%s::NEG_INFINITY" % t,
}
for k, c in enumerate(LET):
    CONST_VALUES[c.upper()] = (lambda k: lambda t, n, i: ("1 as %s" % t) if i == k else ("0 as %s" % t))(k)
    CONST_VALUES["NEG_" + c.upper()] = (lambda k: lambda t, n, i: ("-(1 as %s)" % t) if i == k else ("0 as %s" % t))(k)


def build(config, tier):
    backend = core.CONFIGS[config]["backend"]
    obs, uncovered = [], []
    for (N, n, t, f, simd, ln) in types(backend):
        if config != "sse2" and not simd:
            continue
        src = open(os.path.join(weave.REPO, f)).read()
        isq = N in ("Quat", "DQuat")
        has = lambda pat: re.search(pat, src, re.M) is not None
        args = ", ".join("a[%d]" % i for i in range(n))
        tup = "(%s)" % ", ".join("a[%d]" % i for i in range(n))
        tupt = "(%s)" % ", ".join([t] * n)
        arr = "[%s; %d]" % (t, n)
        b = lambda e: "(%s).words()[0]" % e
        C = []   # constructor clauses (name, expr)
        R = []   # read clauses
        Wc = []  # write clauses
        new = "from_xyzw" if isq else "new"
        if not has(r"pub const fn %s\(" % new):
            uncovered.append("%s::%s missing" % (N, new))
            continue
        mkv = "%s::%s(%s)" % (N, new, args)
        view = lambda v: "[%s]" % ", ".join(b("%s.to_array()[%d]" % (v, i)) for i in range(n))
        aw = "[%s]" % ", ".join(b("a[%d]" % i) for i in range(n))
        C.append(("%s then to_array" % new, "%s == %s" % (view("v"), aw)))
        if has(r"pub const fn splat\("):
            C.append(("splat", "%s == [%s]" % (view("%s::splat(a[0])" % N), ", ".join([b("a[0]")] * n))))
        if has(r"pub const fn from_array\("):
            C.append(("from_array", "mk::same(%s::from_array(a), v)" % N))
        if has(r"pub (const )?fn from_slice\("):
            C.append(("from_slice", "mk::same(%s::from_slice(&a), v)" % N))
        if has(r"^impl From<\[%s; %d\]> for %s \{" % (t, n, N)):
            C.append(("From<array>", "mk::same(%s::from(a), v)" % N))
        if has(r"^impl From<\(%s\)> for %s \{" % (", ".join([t] * n), N)):
            C.append(("From<tuple>", "mk::same(%s::from(%s), v)" % (N, tup)))
        if has(r"^pub const fn %s\(" % ln):
            C.append(("free fn %s()" % ln, "mk::same(glam::%s(%s), v)" % (ln, args)))
        # constants
        for cm in re.finditer(r"^    pub const ([A-Z_]+): Self = ", src, re.M):
            cn = cm.group(1)
            gen = CONST_VALUES.get(cn)
            if cn == "IDENTITY" and isq:
                C.append(("IDENTITY", "mk::same(%s::IDENTITY, %s::from_xyzw(0.0, 0.0, 0.0, 1.0))" % (N, N)))
                continue
            if gen is None or (len(cn) == 1 and LET.index(cn.lower()) >= n) or (cn.startswith("NEG_") and len(cn) == 5 and LET.index(cn[4].lower()) >= n):
                if cn not in ("AXES",):
                    uncovered.append("%s::%s (constant without a clause)" % (N, cn))
                continue
            lanes = [gen(t, n, i) for i in range(n)]
            if any(l is None for l in lanes):
                continue
            C.append((cn, "%s == [%s]" % (view("%s::%s" % (N, cn)), ", ".join(b(l) for l in lanes))))
        if has(r"pub const AXES: \[Self; %d\]" % n):
            C.append(("AXES", " && ".join("mk::same(%s::AXES[%d], %s::%s)" % (N, i, N, LET[i].upper()) for i in range(n))))
        # reads
        R.append(("fields", " && ".join("%s == %s" % (b("v.%s" % LET[i]), b("a[%d]" % i)) for i in range(n))))
        if has(r"^impl Index<usize> for %s \{" % N):
            R.append(("Index", " && ".join("%s == %s" % (b("v[%d]" % i), b("a[%d]" % i)) for i in range(n))))
        if has(r"^impl From<%s> for \[%s; %d\] \{" % (N, t, n)):
            R.append(("Into<array>", "{ let x: %s = v.into(); %s }" % (arr, " && ".join("%s == %s" % (b("x[%d]" % i), b("a[%d]" % i)) for i in range(n)))))
        if has(r"^impl From<%s> for \(%s\) \{" % (N, ", ".join([t] * n))):
            R.append(("Into<tuple>", "{ let x: %s = v.into(); %s }" % (tupt, " && ".join("%s == %s" % (b("x.%d" % i), b("a[%d]" % i)) for i in range(n)))))
        if has(r"^impl AsRef<\[%s; %d\]> for %s \{" % (t, n, N)):
            R.append(("AsRef", "{ let x: &%s = v.as_ref(); %s }" % (arr, " && ".join("%s == %s" % (b("x[%d]" % i), b("a[%d]" % i)) for i in range(n)))))
        if has(r"pub (?:const )?fn write_to_slice\("):
            R.append(("write_to_slice", "{ let mut x = [0 as %s; %d]; v.write_to_slice(&mut x); %s }" % (t, n, " && ".join("%s == %s" % (b("x[%d]" % i), b("a[%d]" % i)) for i in range(n)))))
        # writes: full-view postcondition
        upd = lambda i: "[%s]" % ", ".join(b("s") if j == i else b("a[%d]" % j) for j in range(n))
        for i in range(n):
            Wc.append(("field .%s = s" % LET[i], "{ let mut w = v; w.%s = s; %s == %s }" % (LET[i], view("w"), upd(i))))
            if has(r"^impl IndexMut<usize> for %s \{" % N):
                Wc.append(("IndexMut [%d] = s" % i, "{ let mut w = v; w[%d] = s; %s == %s }" % (i, view("w"), upd(i))))
            if has(r"^impl AsMut<\[%s; %d\]> for %s \{" % (t, n, N)):
                Wc.append(("AsMut [%d] = s" % i, "{ let mut w = v; { let m: &mut %s = w.as_mut(); m[%d] = s; } %s == %s }" % (arr, i, view("w"), upd(i))))
            if has(r"pub (?:const )?fn with_%s\(" % LET[i]):
                Wc.append(("with_%s(s)" % LET[i], "{ let w = v.with_%s(s); %s == %s }" % (LET[i], view("w"), upd(i))))
        pre = "let a: %s = vk::any(); let s: %s = vk::any(); let v = %s;" % (arr, t, mkv)
        for (grp, cl) in (("ctor_read", C + R), ("write", Wc)):
            if not cl:
                continue
            name = "c17_%s_%s_%s" % (config, ln, grp)
            agg = pre + "\n    let ok = " + "\n        && ".join("(%s)" % c[1] for c in cl) + ';\n    check!(ok, "bundle of %d access-path clauses");' % len(cl)
            spl = pre + "\n    " + "\n    ".join('check!(%s, "%s: %s");' % (c[1], N, c[0]) for c in cl)
            desc = "%s %s: %s" % (N, "constructors and read paths agree on lane order, bit-for-bit" if grp == "ctor_read"
                                  else "every write path changes exactly the addressed lane (full-view postcondition)", ", ".join(c[0] for c in cl))
            obs.append(Ob(name, PROP, agg, fn="%s access paths" % N, kind="bundle", solver="cadical", stubs=["sse"], clauses=len(cl),
                          split=name + "__split", cls="bits", desc=desc[:600]))
            obs.append(Ob(name + "__split", PROP, spl, fn="%s access paths" % N, kind="bundle-split", solver="cadical", stubs=["sse"], desc=desc[:300]))
        # symbolic 3-step history (sanity lemma): write path and lane chosen by the solver each step
        if has(r"^impl IndexMut<usize> for %s \{" % N) and has(r"pub (?:const )?fn with_x\("):
            step = """let k: usize = vk::any(); vk::assume(k < %d); let p: u8 = vk::any(); let s: %s = vk::any();
        if p %% 3 == 0 { w[k] = s; } else if p %% 3 == 1 { w = match k { %s }; } else { match k { %s } }
        m[k] = s.words()[0];""" % (n, t, " ".join("%d => w.with_%s(s)," % (i, LET[i]) if i < n - 1 else "_ => w.with_%s(s)," % LET[i] for i in range(n)),
                                   " ".join("%d => { w.%s = s; }" % (i, LET[i]) if i < n - 1 else "_ => { w.%s = s; }" % LET[i] for i in range(n)))
            body = pre + "\n    let mut w = v; let mut m = %s;\n    { %s }\n    { %s }\n    { %s }\n    check!(%s == m, \"view after 3 writes through mixed paths\"); check!(%s, \"Index agrees\");" % (
                aw, step, step, step, view("w"), " && ".join("%s == m[%d]" % (b("w[%d]" % i), i) for i in range(n)))
            obs.append(Ob("c17_%s_%s_history3" % (config, ln), PROP, body, fn="%s access paths" % N, kind="lemma", solver="cadical", stubs=["sse"], clauses=2,
                          tier="quick" if simd else "thorough", cls="bits", desc="%s: 3 writes through solver-chosen paths (IndexMut / with_ / field) and lanes, then all read paths agree with the model array" % N))
    if config == "sse2":
        obs.append(Ob("c17_sse2_canary_vec3a_with_y_frame", PROP,
                      'let a: [f32; 3] = vk::any(); let s: f32 = vk::any(); let v = Vec3A::new(a[0], a[1], a[2]); let w = v.with_y(s); check!(w.to_array()[2].to_bits() == s.to_bits(), "with_y writes z");',
                      fn="Vec3A::with_y", kind="canary", expect="refute", desc="canary: with_y specified as writing lane z"))
        obs.append(Ob("c17_sse2_canary_vec4_index_order", PROP,
                      'let a: [f32; 4] = vk::any(); let v = Vec4::from_array(a); check!(v[1].to_bits() == a[2].to_bits(), "index 1 is lane 2");',
                      fn="Vec4::index", kind="canary", expect="refute", desc="canary: v[1] specified as lane 2"))
    return obs, uncovered


def run(s):
    unc = []
    for cfg in ("sse2", "scalar"):
        obs, u = build(cfg, s.tier)
        unc += ["%s: %s" % (cfg, x) for x in u]
        s.run_config(cfg, [], obs)
    s.assumptions += [
        "clauses are asserted at the call site on fully symbolic lanes (bundled call-site obligations); accessor functions carry no woven attribute",
        "Debug/Display text is not decided (core::fmt float formatting is outside contract reach)",
        "NEON / wasm32 / core-simd layouts are not compiled by the verifier",
    ]
    return s.finish(level_note="abstract view = bits of to_array(); constructors, read paths and full-view write postconditions for 40 vector types + Quat/DQuat",
                    trusted_base=["Kani 0.68 / CBMC 6.11 / CaDiCaL"], extra_cov={"uncovered_paths": unc},
                    not_decided=["Debug/Display output", "histories are covered by induction over the per-write full-view clauses (not machine-checked), plus a 3-step symbolic lemma"])
