"""C03 - matrix algebra: product, transpose, determinant and inverse are the true ones.

 * full-domain obligations (all entry bit patterns, Mat3A with symbolic hidden lanes):
     mul_vecN   : each result lane is the sum over c of entry(r,c)*v[c], single-rounded products
                  summed in any association order (tree_in, fast path + fallback)   [cvc5]
     add_mat / sub_mat / mul_scalar / div_scalar / unary minus: column c of the result is the vector
                  operator applied to column c (primitive arithmetic uninterpreted)  [SAT]
 * forwarding lemmas (plain crate, primitive arithmetic uninterpreted): every operator form equals
   the named method, and column c of A*B is A.mul_vec(B.col(c)) - so the product law follows from the
   mul_vec contract.
 * exact-lattice lemmas (entries symbolic small integers, IEEE evaluation exact, spec in i16):
     M*v, A*B, (A*B)*v == A*(B*v), determinant == Laplace expansion (rank-deficient => exactly 0),
     inverse(M)*det(M) == adj(M) exactly whenever |det| is a power of two (then 1/det is exact).
   Together with the degree argument of DESIGN 3.5 this identifies the polynomial the code computes."""
import os, re
import core
from core import Ob, Contract, contract_ob
import weave
from gt import MATS, MAT_BY_NAME

PROP = "C03"
MULVEC = {"Mat2": [("mul_vec2", "Vec2")], "Mat3": [("mul_vec3", "Vec3"), ("mul_vec3a", "Vec3A")], "Mat3A": [("mul_vec3", "Vec3"), ("mul_vec3a", "Vec3A")],
          "Mat4": [("mul_vec4", "Vec4")], "DMat2": [("mul_vec2", "DVec2")], "DMat3": [("mul_vec3", "DVec3")], "DMat4": [("mul_vec4", "DVec4")]}


MUF = """
pub mod {mod} {{
    use glam::*; use crate::mk::*;
    static mut T_MM: MemoK<{N}, 3> = MemoK::new(<{N}>::ZERO);
    static mut T_MV: MemoK<{V}, 8> = MemoK::new(<{V}>::ZERO);
    static mut T_ADD: MemoK<{N}, 3> = MemoK::new(<{N}>::ZERO);
    static mut T_SUB: MemoK<{N}, 3> = MemoK::new(<{N}>::ZERO);
    static mut T_MS: MemoK<{N}, 4> = MemoK::new(<{N}>::ZERO);
    static mut T_DS: MemoK<{N}, 3> = MemoK::new(<{N}>::ZERO);
    pub fn mul_mat(a: &{N}, b: &{N}) -> {N} {{ unsafe {{ T_MM.get(kcat(a.mbits(), b.mbits(), [0; 4]), mk()) }} }}
    pub fn mul_vec(a: &{N}, v: {V}) -> {V} {{ unsafe {{ T_MV.get(kcat(a.mbits(), [0; 16], v.words()), mk()) }} }}
    pub fn add_mat(a: &{N}, b: &{N}) -> {N} {{ unsafe {{ T_ADD.get(kcat(a.mbits(), b.mbits(), [0; 4]), mk()) }} }}
    pub fn sub_mat(a: &{N}, b: &{N}) -> {N} {{ unsafe {{ T_SUB.get(kcat(a.mbits(), b.mbits(), [0; 4]), mk()) }} }}
    pub fn mul_scalar(a: &{N}, s: {t}) -> {N} {{ unsafe {{ T_MS.get(kcat(a.mbits(), [0; 16], s.words()), mk()) }} }}
    pub fn div_scalar(a: &{N}, s: {t}) -> {N} {{ unsafe {{ T_DS.get(kcat(a.mbits(), [0; 16], s.words()), mk()) }} }}
}}
"""


def mctor(M, ai):
    w, NN = M.w, M.N
    if M.name == "Mat3A":
        return "mk::mat3a_of(sp::f32x9(%s))" % ai
    return "<%s>::from_cols_array(&sp::f%dx%d(%s))" % (M.name, w, NN, ai)


def vctor(V, w, n, vi):
    if V == "Vec3A":
        return "mk::vec3a_of(sp::f32x3(%s))" % vi
    return "<%s>::from_array(sp::f%dx%d(%s))" % (V, w, n, vi)


def build(config, tier):
    backend = core.CONFIGS[config]["backend"]
    contracts, obs, extra = [], [], []
    for M in MATS:
        if config != "sse2" and not M.simd:
            continue
        N, n, t, w, NN = M.name, M.C, M.t, M.w, M.N
        f = M.file(backend)
        ln = M.lname
        pre = "c03_%s_%s" % (config, ln)
        big = (n == 4)
        # ---- woven FD contracts
        for (meth, V) in MULVEC[N]:
            lanes = [("r[%d]" % r, ["m[%d] * v[%d]" % (c * n + r, c) for c in range(n)]) for r in range(n)]
            obs.extend(core.tree_obs("%s_%s" % (pre, meth), PROP, "let a = mk::<%s>(); let x = mk::<%s>(); let m = a.to_cols_array(); let v = x.to_array(); let r = a.%s(x).to_array();" % (N, V, meth), lanes, w,
                                     fn="%s::%s" % (N, meth), tier="quick" if (M.simd or n < 4) else "thorough",
                                     desc="%s::%s lane r == sum_c entry(r,c)*v[c] (single-rounded products, any association order), full domain" % (N, meth)))
        # add / sub / scalar * / scalar / / unary minus: column c of the result is the VECTOR operation on column c
        # (primitive arithmetic uninterpreted, plain crate) - entry-wise semantics then follow from the C01 lane
        # contracts of the vector operators
        for (opn, res, vop, dsc) in (("add", "a.add_mat%d(&b)" % n, "a.col({c}) + b.col({c})", "add_mat"), ("sub", "a.sub_mat%d(&b)" % n, "a.col({c}) - b.col({c})", "sub_mat"),
                                     ("mul_scalar", "a.mul_scalar(s)", "a.col({c}) * s", "mul_scalar"), ("div_scalar", "a.div_scalar(s)", "a.col({c}) / s", "div_scalar"), ("neg", "-a", "-a.col({c})", "unary minus")):
            cw = ["let a = mk::<%s>(); let b = mk::<%s>(); let s: %s = vk::any(); let r = %s;" % (N, N, t, res)]
            cw.append('check!(%s, "%s acts column by column");' % (" && ".join("mk::same(r.col(%d), %s)" % (c_, vop.format(c=c_)) for c_ in range(n)), dsc))
            obs.append(Ob("%s_columnwise_%s" % (pre, opn), PROP, "\n    ".join(cw), fn="%s::%s" % (N, dsc), kind="lemma", solver="cadical",
                          stubs=["sse_uf", "arith_uf%d" % w], plain=True, clauses=n, cls="forwarding",
                          desc="%s: %s acts column by column as the vector operator (bit-for-bit, primitive arithmetic uninterpreted); entry-wise semantics follow from the C01 vector contracts" % (N, dsc)))
        # ---- forwarding: operators == named methods, A*B column-wise through mul_vec.  The named methods
        # are replaced by uninterpreted functions of the operand bits (plain crate: no woven contracts)
        mv = [m_ for (m_, V_) in MULVEC[N] if V_ == M.col][0]
        mod = "muf_%s_%s" % (config, ln)
        extra.append(MUF.format(mod=mod, N=N, V=M.col, t=t, n=n, mv=mv))
        P = "glam::%s" % N
        fw_stubs = [("%s::mul_mat%d" % (P, n), "crate::%s::mul_mat" % mod), ("%s::%s" % (P, mv), "crate::%s::mul_vec" % mod),
                    ("%s::add_mat%d" % (P, n), "crate::%s::add_mat" % mod), ("%s::sub_mat%d" % (P, n), "crate::%s::sub_mat" % mod),
                    ("%s::mul_scalar" % P, "crate::%s::mul_scalar" % mod), ("%s::div_scalar" % P, "crate::%s::div_scalar" % mod)]
        fw = ["let a = mk::<%s>(); let b = mk::<%s>(); let v = mk::<%s>(); let s: %s = vk::any();" % (N, N, M.col, t)]
        fw.append('check!(mk::msame(a * b, a.mul_mat%d(&b)), "A * B == mul_mat");' % n)
        fw.append('check!(mk::same(a * v, a.%s(v)), "A * v == mul_vec");' % mv)
        fw.append('check!(mk::msame(a + b, a.add_mat%d(&b)) && mk::msame(a - b, a.sub_mat%d(&b)), "A + B, A - B");' % (n, n))
        fw.append('check!(mk::msame(a * s, a.mul_scalar(s)) && mk::msame(s * a, a.mul_scalar(s)) && mk::msame(a / s, a.div_scalar(s)), "A * s, s * A, A / s");')
        obs.append(Ob("%s_forwarding_ops" % pre, PROP, "\n    ".join(fw), fn="%s operators" % N, kind="lemma", solver="cadical", stubs=["sse"] + fw_stubs, plain=True,
                      clauses=len(fw) - 1, cls="forwarding",
                      desc="%s: operator forms equal the named methods bit-for-bit (named methods uninterpreted)" % N))
        fw = ["let a = mk::<%s>(); let b = mk::<%s>(); let s: %s = vk::any();" % (N, N, t)]
        fw.append('{ let mut x = a; x *= b; check!(mk::msame(x, a.mul_mat%d(&b)), "*="); }' % n)
        fw.append('{ let mut y = a; y += b; let mut z = a; z -= b; check!(mk::msame(y, a.add_mat%d(&b)) && mk::msame(z, a.sub_mat%d(&b)), "+= -="); }' % (n, n))
        fw.append('{ let mut u = a; u *= s; let mut q = a; q /= s; check!(mk::msame(u, a.mul_scalar(s)) && mk::msame(q, a.div_scalar(s)), "*= s, /= s"); }')
        obs.append(Ob("%s_forwarding_assign" % pre, PROP, "\n    ".join(fw), fn="%s assign operators" % N, kind="lemma", solver="cadical", stubs=["sse"] + fw_stubs, plain=True,
                      clauses=len(fw) - 1, cls="forwarding", desc="%s: assign operator forms equal the named methods bit-for-bit (named methods uninterpreted)" % N))
        # column c of mul_mat is mul_vec of column c (only mul_vec uninterpreted) - where the source forwards
        srcm = open(os.path.join(weave.REPO, f)).read()
        mm_body = re.search(r"pub fn mul_mat%d\(&self, rhs: &Self\) -> Self \{(.*?)\n    \}" % n, srcm, re.S)
        forwards = bool(mm_body and "self.mul(rhs." in mm_body.group(1))
        fw = ["let a = mk::<%s>(); let b = mk::<%s>(); let p = a.mul_mat%d(&b);" % (N, N, n)]
        for c_ in range(n):
            fw.append('check!(mk::same(p.col(%d), a.%s(b.col(%d))), "column %d of A*B is A * B.col(%d)");' % (c_, mv, c_, c_, c_))
        if forwards:
          obs.append(Ob("%s_mul_mat_columns" % pre, PROP, "\n    ".join(fw), fn="%s::mul_mat%d" % (N, n), kind="lemma", solver="cadical",
                      stubs=["sse", ("%s::%s" % (P, mv), "crate::%s::mul_vec" % mod)], plain=True, clauses=n, cls="forwarding",
                      desc="%s::mul_mat%d: column c of A*B is bit-for-bit A.%s(B.col(c)) for any function in place of %s - the product law follows from the mul_vec contract" % (N, n, mv, mv)))
        # ---- exact lattice
        eqi = "sp::eqi%d" % w
        B = 1
        head = "let ai = sp::lat%d(%d); let a = %s;" % (NN, B, mctor(M, "ai"))
        for (meth, V) in MULVEC[N]:
            for lane in range(n):
                body = head + " let vi = sp::lat%d(%d); let v = %s; let r = a.%s(v); let e = sp::mv%d(ai, vi);\n    check!(%s(r.to_array()[%d], e[%d]), \"M*v exact (lane %d)\");" % (
                    n, B, vctor(V, w, n, "vi"), meth, n, eqi, lane, lane, lane)
                obs.append(Ob("%s_lat_%s_l%d" % (pre, meth, lane), PROP, body, fn="%s::%s" % (N, meth), kind="lemma", solver="cadical", stubs=["sse"], cls="lattice",
                              tier="quick" if (t == "f32" and n < 4) or N == "Mat4" else "thorough",
                              desc="%s::%s on the lattice {-1,0,1}: lane %d is the exact integer sum_c entry(r,c)*v[c]" % (N, meth, lane)))
        # A*B exact, one harness per column
        for c_ in range(n):
            body = head + " let bi = sp::lat%d(%d); let b = %s; let r = a.mul_mat%d(&b).to_cols_array(); let e = sp::mm%d(ai, bi);\n    check!(%s, \"A*B exact (column %d)\");" % (
                NN, B, mctor(M, "bi"), n, n, " && ".join("%s(r[%d], e[%d])" % (eqi, c_ * n + r_, c_ * n + r_) for r_ in range(n)), c_)
            obs.append(Ob("%s_lat_mul_mat_c%d" % (pre, c_), PROP, body, fn="%s::mul_mat%d" % (N, n), kind="lemma", solver="cadical", stubs=["sse"], cls="lattice",
                          tier="quick" if (not big and t == "f32") else "thorough",
                          desc="%s A*B on the lattice {-1,0,1}: column %d is the exact integer matrix product" % (N, c_)))
        # associativity with a vector
        body = head + " let bi = sp::lat%d(%d); let b = %s; let vi = sp::lat%d(%d); let v = %s;\n    let l = (a * b) * v; let r = a * (b * v); let e = sp::mv%d(ai, sp::mv%d(bi, vi));\n    check!(%s, \"(A*B)*v == A*(B*v) exact\");" % (
            NN, B, mctor(M, "bi"), n, B, vctor(M.col, w, n, "vi"), n, n,
            " && ".join("%s(l.to_array()[%d], e[%d]) && %s(r.to_array()[%d], e[%d])" % (eqi, i, i, eqi, i, i) for i in range(n)))
        obs.append(Ob("%s_lat_assoc" % pre, PROP, body, fn="%s (A*B)*v" % N, kind="lemma", solver="cadical", stubs=["sse"], cls="lattice", tier="quick" if (n < 3 and t == "f32") else "thorough",
                      desc="%s: (A*B)*v == A*(B*v) == the exact integer vector on the lattice {-1,0,1}" % N))
        # determinant
        Bd = {2: 8, 3: 2, 4: 1}[n]
        headd = "let ai = sp::lat%d(%d); let a = %s;" % (NN, Bd, mctor(M, "ai"))
        body = headd + " let d = a.determinant();\n    check!(%s(d, sp::det%d(ai)), \"determinant == Laplace expansion\");" % (eqi, n)
        obs.append(Ob("%s_lat_det" % pre, PROP, body, fn="%s::determinant" % N, kind="lemma", solver="cadical", stubs=["sse"], cls="lattice", tier="quick" if t == "f32" else "thorough", pin=(n == 4 and t == "f32"),
                      desc="%s::determinant on all %dx%d integer matrices with entries in [-%d,%d] is the exact integer Laplace expansion (rank-deficient => exactly 0)" % (N, n, n, Bd, Bd)))
        # inverse: |det| a power of two => inverse * det == adj exactly
        if n < 4:
            adj = "sp::adj%d(ai)" % n
            for c_ in range(n):
                conds = " && ".join("%s(r[%d] * (di as %s), ad[%d])" % (eqi, c_ * n + r_, t, c_ * n + r_) for r_ in range(n))
                body = head + " let di = sp::det%d(ai); vk::assume(di == 1 || di == -1 || di == 2 || di == -2 || di == 4 || di == -4); let r = a.inverse().to_cols_array(); let ad = %s;\n    check!(%s, \"inverse * det == adj (column %d)\");" % (n, adj, conds, c_)
                obs.append(Ob("%s_lat_inverse_c%d" % (pre, c_), PROP, body, fn="%s::inverse" % N, kind="lemma", solver="cadical", stubs=["sse"], cls="lattice",
                              tier="quick" if t == "f32" else "thorough",
                              desc="%s::inverse, column %d, on lattice matrices whose determinant is +-1, +-2 or +-4: inverse(M) * det(M) == adj(M) exactly" % (N, c_)))
        else:
            for c_ in range(4):
                conds = " && ".join("%s(r[%d] * (di as %s), sp::adj4_entry(ai, %d, %d))" % (eqi, c_ * 4 + r_, t, r_, c_) for r_ in range(4))
                body = head + " let di = sp::det4(ai); vk::assume(di == 1 || di == -1 || di == 2 || di == -2 || di == 4 || di == -4); let r = a.inverse().to_cols_array();\n    check!(%s, \"inverse * det == adj (column %d)\");" % (conds, c_)
                obs.append(Ob("%s_lat_inverse_c%d" % (pre, c_), PROP, body, fn="%s::inverse" % N, kind="lemma", solver="cadical", stubs=["sse"], cls="lattice", tier="thorough",
                              desc="%s::inverse, column %d, on lattice matrices with determinant +-1, +-2, +-4: inverse * det == adj exactly" % (N, c_)))
    if config == "sse2":
        obs.append(Ob("c03_sse2_canary_det3_sign", PROP,
                      'let ai = sp::lat9(1); let a = Mat3::from_cols_array(&sp::f32x9(ai)); check!(sp::eqi32(a.determinant(), -sp::det3(ai)), "det with the wrong sign");',
                      fn="Mat3::determinant", kind="canary", expect="refute", desc="canary: determinant specified with the opposite sign"))
        obs.append(Ob("c03_sse2_canary_mul_vec_transposed", PROP,
                      'let ai = sp::lat9(1); let a = mk::mat3a_of(sp::f32x9(ai)); let vi = sp::lat3(1); let v = mk::vec3a_of(sp::f32x3(vi)); let r = a * v; let mut ti = ai; ti[1] = ai[3]; ti[3] = ai[1]; let e = sp::mv3(ti, vi); check!(sp::eqi32(r.to_array()[0], e[0]) && sp::eqi32(r.to_array()[1], e[1]), "row-vector convention");',
                      fn="Mat3A * Vec3A", kind="canary", expect="refute", desc="canary: M*v specified with two entries transposed"))
    return contracts, obs, "\n".join(extra)


def run(s):
    for cfg in ("sse2", "scalar"):
        contracts, obs, extra = build(cfg, s.tier)
        s.run_config(cfg, contracts, obs, extra_rust=extra)
    s.assumptions += [
        "A3: off the exact lattice the float result of the verified expression tree is within the standard rounding bound of its real value (not machine-checked)",
        "A4: two polynomials of degree <= 2 per variable that agree on {-1,0,1}^n are identical (lattice lemma, DESIGN 3.5); determinant of Mat3 uses [-2,2], Mat2 [-8,8]",
        "inverse: exact only where 1/det is exact (|det| in {1,2,4}); M*inverse(M) = I to eps*cond for general matrices is not decided",
        "transpose is a C06 obligation (bit-for-bit)",
    ]
    return s.finish(level_note="FD contracts on mul_vec/add/sub/scalar ops; forwarding lemmas; exact-lattice identities for product, determinant, adjugate/inverse",
                    trusted_base=["Kani 0.68 / CBMC 6.11 / CaDiCaL; cvc5 for full-domain same-expression obligations", "model/sse.rs"],
                    not_decided=["numerical accuracy (eps x condition number) of inverse and products for general real matrices", "Mat4/DMat4 lattice obligations run in the thorough tier only"])
