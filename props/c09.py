"""C09 - rotation constructors and all 24 Euler orders follow the documented conventions.

sin_cos is an UNINTERPRETED function (shared by code and spec): every obligation holds for every
function in its place, in particular the real one, and for EVERY f32/f64 angle bit pattern.
 * from_rotation_x/y/z, from_angle (Quat, Mat2, Mat3, Mat3A, Mat4, Affine2, Affine3A + f64 twins):
   entries are exactly the textbook matrices / half-angle quaternions in (s, c) = sin_cos(angle)
   (counter-clockwise, right-hand rule), full domain.
 * from_axis_angle (matrices): Rodrigues polynomial c*I + s*[a]x + (1-c)*a*a^T, exact on the lattice
   axis in {-1,0,1}^3, (s, c) in {-1,0,1}^2 (polynomial identity, degree <= 2 per variable);
   quaternion form: (axis*s, c) with the half angle, full domain.
 * from_euler(order, a, b, c), all 24 orders: EXACTLY equal to the product of the three single-axis
   constructors in the order the variant names (intrinsic left to right, Ex reversed), for matrices
   and quaternions, with sin_cos values on the lattice and odd/even symmetry (assumption A5)."""
import core
from core import Ob

PROP = "C09"
ORDERS = ["ZYX", "ZXY", "YXZ", "YZX", "XYZ", "XZY", "ZYZ", "ZXZ", "YXY", "YZY", "XYX", "XZX"]
ORDERS = ORDERS + [o + "Ex" for o in ORDERS]

AUF = """
pub mod {mod} {{
    use glam::*; use crate::mk::*;
    static mut T: MemoV<{Q}> = MemoV::new(<{Q}>::IDENTITY);
    pub fn from_axis_angle(axis: {V}, angle: {t}) -> {Q} {{ unsafe {{ T.get(key2(axis.words(), angle.words()), mk()) }} }}
    static mut TL: MemoV<{t}> = MemoV::new(0.0);
    pub fn length(v: {V}) -> {t} {{ unsafe {{ TL.get(key2(v.words(), [0; 4]), crate::vk::any()) }} }}
}}
"""

ROT = {  # axis -> column-major 3x3 in terms of s, c (right-hand rule, counter-clockwise)
    "x": ["1", "0", "0", "0", "c", "s", "0", "-s", "c"],
    "y": ["c", "0", "-s", "0", "1", "0", "s", "0", "c"],
    "z": ["c", "s", "0", "-s", "c", "0", "0", "0", "1"],
}
M3 = [("Mat3", "f32", 32, True), ("Mat3A", "f32", 32, True), ("DMat3", "f64", 64, False)]
M4 = [("Mat4", "f32", 32, True), ("DMat4", "f64", 64, False)]
AF = [("Affine3A", "f32", 32, True), ("DAffine3", "f64", 64, False)]
QS = [("Quat", "f32", 32, "Vec3"), ("DQuat", "f64", 64, "DVec3")]


def embed(kind, e9):
    if kind == "m3":
        return e9
    if kind == "m4":
        return e9[0:3] + ["0"] + e9[3:6] + ["0"] + e9[6:9] + ["0"] + ["0", "0", "0", "1"]
    return e9 + ["0", "0", "0"]


def lit(e, t):
    return e if e in ("s", "c", "-s", "-c") else "(%s as %s)" % (e, t)


def build(config, tier):
    obs = []
    extra = []
    if config != "sse2":
        types_m3 = [x for x in M3 if x[0] == "Mat3A"]
        types_m4 = [x for x in M4 if x[0] == "Mat4"]
        types_af = [x for x in AF if x[0] == "Affine3A"]
        qs = [x for x in QS if x[0] == "Quat"]
    else:
        types_m3, types_m4, types_af, qs = M3, M4, AF, QS
    pre0 = "c09_%s" % config
    # ---- single-axis constructors, full domain with UF sin_cos
    for (kind, types) in (("m3", types_m3), ("m4", types_m4), ("af", types_af)):
        for (T, t, w, q) in types:
            for ax in "xyz":
                exp = embed(kind, ROT[ax])
                body = "let a: %s = vk::any(); let (s, c) = crate::uf::sin_cos_f%d(a); let m = <%s>::from_rotation_%s(a).to_cols_array();\n    check!(%s, \"from_rotation_%s entries\");" % (
                    t, w, T, ax, " && ".join("__verif::leq%d(m[%d], %s)" % (w, i, lit(e, t)) for i, e in enumerate(exp)), ax)
                obs.append(Ob("%s_%s_rotation_%s" % (pre0, T.lower(), ax), PROP, body, fn="%s::from_rotation_%s" % (T, ax), kind="lemma", solver="cadical",
                              stubs=["sse", "uf_sin_cos%d" % w], cls="structure",
                              desc="%s::from_rotation_%s(a) is exactly the textbook counter-clockwise rotation about +%s in (sin a, cos a), for every angle bit pattern" % (T, ax, ax.upper())))
    for (T, t, w, col) in (("Mat2", "f32", 32, None), ("DMat2", "f64", 64, None)):
        if config != "sse2" and T != "Mat2":
            continue
        body = "let a: %s = vk::any(); let (s, c) = crate::uf::sin_cos_f%d(a); let m = <%s>::from_angle(a).to_cols_array();\n    check!(__verif::leq%d(m[0], c) && __verif::leq%d(m[1], s) && __verif::leq%d(m[2], -s) && __verif::leq%d(m[3], c), \"from_angle\");" % (t, w, T, w, w, w, w)
        obs.append(Ob("%s_%s_from_angle" % (pre0, T.lower()), PROP, body, fn="%s::from_angle" % T, kind="lemma", solver="cadical", stubs=["sse", "uf_sin_cos%d" % w], cls="structure",
                      desc="%s::from_angle(a) == [[c, -s], [s, c]] (column-major c, s, -s, c)" % T))
    if config == "sse2":
        for (T, t, w) in (("Affine2", "f32", 32), ("DAffine2", "f64", 64)):
            body = "let a: %s = vk::any(); let (s, c) = crate::uf::sin_cos_f%d(a); let m = <%s>::from_angle(a).to_cols_array();\n    check!(__verif::leq%d(m[0], c) && __verif::leq%d(m[1], s) && __verif::leq%d(m[2], -s) && __verif::leq%d(m[3], c) && m[4] == 0.0 && m[5] == 0.0, \"from_angle\");" % (t, w, T, w, w, w, w)
            obs.append(Ob("%s_%s_from_angle" % (pre0, T.lower()), PROP, body, fn="%s::from_angle" % T, kind="lemma", solver="cadical", stubs=["sse", "uf_sin_cos%d" % w], cls="structure",
                          desc="%s::from_angle(a): linear part [[c,-s],[s,c]], zero translation" % T))
        for (T, t, w) in (("Mat3", "f32", 32), ("DMat3", "f64", 64)):
            exp = ROT["z"]
            body = "let a: %s = vk::any(); let (s, c) = crate::uf::sin_cos_f%d(a); let m = <%s>::from_angle(a).to_cols_array();\n    check!(%s, \"from_angle (2D rotation in a 3x3)\");" % (
                t, w, T, " && ".join("__verif::leq%d(m[%d], %s)" % (w, i, lit(e, t)) for i, e in enumerate(exp)))
            obs.append(Ob("%s_%s_from_angle" % (pre0, T.lower()), PROP, body, fn="%s::from_angle" % T, kind="lemma", solver="cadical", stubs=["sse", "uf_sin_cos%d" % w], cls="structure",
                          desc="%s::from_angle(a) is the rotation about +Z" % T))
    # quaternion single-axis and axis-angle forms: half angle
    for (Q, t, w, V3) in qs:
        for k, ax in enumerate("xyz"):
            exp = ["(0 as %s)" % t] * 3 + ["c"]
            exp[k] = "s"
            body = "let a: %s = vk::any(); let (s, c) = crate::uf::sin_cos_f%d(a * 0.5); let q = <%s>::from_rotation_%s(a).to_array();\n    check!(%s, \"half-angle quaternion\");" % (
                t, w, Q, ax, " && ".join("__verif::leq%d(q[%d], %s)" % (w, i, e) for i, e in enumerate(exp)))
            obs.append(Ob("%s_%s_rotation_%s" % (pre0, Q.lower(), ax), PROP, body, fn="%s::from_rotation_%s" % (Q, ax), kind="lemma", solver="cadical", stubs=["sse", "uf_sin_cos%d" % w], cls="structure",
                          desc="%s::from_rotation_%s(a) == (sin(a/2) on %s, cos(a/2)) with the half angle computed as a * 0.5" % (Q, ax, ax)))
        body = "let a: %s = vk::any(); let ax = mk::<%s>(); let (s, c) = crate::uf::sin_cos_f%d(a * 0.5); let q = <%s>::from_axis_angle(ax, a).to_array(); let v = ax.to_array();\n    check!(__verif::leq%d(q[0], v[0] * s) && __verif::leq%d(q[1], v[1] * s) && __verif::leq%d(q[2], v[2] * s) && __verif::leq%d(q[3], c), \"(axis * sin(a/2), cos(a/2))\");" % (
            t, V3, w, Q, w, w, w, w)
        obs.append(Ob("%s_%s_axis_angle" % (pre0, Q.lower()), PROP, body, fn="%s::from_axis_angle" % Q, kind="lemma", solver="cadical", stubs=["sse", "uf_sin_cos%d" % w], cls="structure",
                      desc="%s::from_axis_angle(axis, a) == (axis * sin(a/2), cos(a/2)), full domain" % Q))
        # from_scaled_axis: forwarding lemma (plain crate): from_axis_angle, sqrt and the primitive arithmetic uninterpreted
        mod = "auf_%s_%s" % (config, Q.lower())
        extra.append(AUF.format(mod=mod, Q=Q, V=V3, t=t))
        body = ("let v = mk::<%s>(); let l = v.length(); let q = <%s>::from_scaled_axis(v); let e = if l == 0.0 { <%s>::IDENTITY } else { <%s>::from_axis_angle(v / l, l) };\n"
                "    check!(mk::same(q, e), \"from_scaled_axis == from_axis_angle(v/|v|, |v|) or identity\");") % (V3, Q, Q, Q)
        obs.append(Ob("%s_%s_scaled_axis" % (pre0, Q.lower()), PROP, body, fn="%s::from_scaled_axis" % Q, kind="lemma", solver="cadical", plain=True,
                      stubs=["sse_uf", "arith_uf%d" % w, ("glam::%s::from_axis_angle" % Q, "crate::%s::from_axis_angle" % mod), ("glam::%s::length" % V3, "crate::%s::length" % mod)], cls="forwarding",
                      desc="%s::from_scaled_axis(v): identity when |v| == 0, else exactly from_axis_angle(v/|v|, |v|) - for any from_axis_angle, length and division in their place" % Q))
    # ---- Rodrigues on the lattice
    for (kind, types) in (("m3", types_m3), ("m4", types_m4), ("af", types_af)):
        for (T, t, w, q) in types:
            V3 = "Vec3" if t == "f32" else "DVec3"
            mode = "unsafe { crate::uf::SINCOS%d_MODE = crate::uf::LAT; }" % w
            ent = []
            K = {(0, 1): "-z", (0, 2): "y", (1, 0): "z", (1, 2): "-x", (2, 0): "-y", (2, 1): "x"}
            for c_ in range(3):
                for r_ in range(3):
                    e = "(1 - ci) * a[%d] * a[%d]" % (r_, c_)
                    if r_ == c_:
                        e = "ci + " + e
                    else:
                        kk = K[(r_, c_)]
                        e = "%ssi * a[%d] + %s" % ("-" if kk[0] == "-" else "", "xyz".index(kk[-1]), e)
                    ent.append(e)
            exp = embed(kind, ent)
            body = mode + " let ang: %s = vk::any(); vk::assume(ang.is_finite()); let a = sp::lat3(1); let axis = <%s>::from_array(sp::f%dx3(a)); let (s, c) = crate::uf::sin_cos_f%d(ang); let (si, ci) = (s as i16, c as i16);\n    let m = <%s>::from_axis_angle(axis, ang).to_cols_array();\n    check!(%s, \"Rodrigues formula exact\");" % (
                t, V3, w, w, T, " && ".join("sp::eqi%d(m[%d], %s)" % (w, i, e) for i, e in enumerate(exp)))
            obs.append(Ob("%s_%s_axis_angle" % (pre0, T.lower()), PROP, body, fn="%s::from_axis_angle" % T, kind="lemma", solver="cadical", stubs=["sse", "uf_sin_cos%d" % w], cls="lattice",
                          tier="quick" if q else "thorough",
                          desc="%s::from_axis_angle == c*I + s*[a]x + (1-c)*a*a^T exactly on the lattice axis in {-1,0,1}^3, sin/cos in {-1,0,1} (Rodrigues)" % T))
    # ---- from_euler: all 24 orders
    euler_types = [("Mat3", 32, "quick"), ("Quat", 32, "quick4")]
    if config == "sse2":
        euler_types += [("Mat3A", 32, "thorough"), ("Mat4", 32, "thorough"), ("DMat3", 64, "thorough"), ("DMat4", 64, "thorough"), ("DQuat", 64, "thorough")]
    else:
        euler_types = [("Mat3A", 32, "thorough"), ("Quat", 32, "thorough"), ("Mat4", 32, "thorough")]
    for (T, w, tr) in euler_types:
        t = "f32" if w == 32 else "f64"
        for o in ORDERS:
            letters = o[:3].lower()
            ex = o.endswith("Ex")
            seq = [(letters[0], "a"), (letters[1], "b"), (letters[2], "c")]
            if ex:
                seq = seq[::-1]
            prod = " * ".join("<%s>::from_rotation_%s(%s)" % (T, ax, ang) for (ax, ang) in seq)
            mode = "unsafe { crate::uf::SINCOS%d_MODE = crate::uf::LAT; crate::uf::SINCOS_PARITY = true; }" % w
            if "Quat" in T:
                cmp_ = "((%s) || (%s))" % (" && ".join("__verif::leq%d(l[%d], r[%d])" % (w, i, i) for i in range(4)), " && ".join("__verif::leq%d(l[%d], -r[%d])" % (w, i, i) for i in range(4)))
                body = mode + " let a: %s = vk::any(); let b: %s = vk::any(); let c: %s = vk::any();\n    let l = <%s>::from_euler(EulerRot::%s, a, b, c).to_array(); let r = (%s).to_array();\n    check!(%s, \"from_euler == +-(product of elemental rotations): q and -q are the same rotation\");" % (t, t, t, T, o, prod, cmp_)
            else:
                nn = 9 if "3" in T else 16
                cmp_ = " && ".join("__verif::leq%d(l[%d], r[%d])" % (w, i, i) for i in range(nn))
                body = mode + " let a: %s = vk::any(); let b: %s = vk::any(); let c: %s = vk::any();\n    let l = <%s>::from_euler(EulerRot::%s, a, b, c).to_cols_array(); let r = (%s).to_cols_array();\n    check!(%s, \"from_euler == product of elemental rotations\");" % (t, t, t, T, o, prod, cmp_)
            obs.append(Ob("%s_%s_euler_%s" % (pre0, T.lower(), o.lower()), PROP, body, fn="%s::from_euler(%s)" % (T, o), kind="lemma", solver="cadical",
                          stubs=["sse", "uf_sin_cos%d" % w], cls="lattice", pin=(tr == "quick" or (tr == "quick4" and o in ("ZYX", "XYZ", "ZXZ", "ZYXEx"))),
                          tier=("quick" if tr == "quick" or (tr == "quick4" and o in ("ZYX", "XYZ", "ZXZ", "ZYXEx")) else "thorough"),
                          desc="%s::from_euler(%s, a, b, c) == %s exactly, for every angle triple, sin/cos uninterpreted on the lattice with odd/even symmetry" % (T, o, prod)))
    if config == "sse2":
        obs.append(Ob("c09_sse2_canary_rotation_z_clockwise", PROP,
                      'let a: f32 = vk::any(); let (s, c) = crate::uf::sin_cos_f32(a); let m = Mat3::from_rotation_z(a).to_cols_array(); check!(__verif::leq32(m[1], -s) && __verif::leq32(m[3], s), "clockwise");',
                      fn="Mat3::from_rotation_z", kind="canary", expect="refute", stubs=["sse", "uf_sin_cos32"], desc="canary: rotation about Z specified clockwise"))
        obs.append(Ob("c09_sse2_canary_euler_xyz_reversed", PROP,
                      'unsafe { crate::uf::SINCOS32_MODE = crate::uf::LAT; crate::uf::SINCOS_PARITY = true; } let a: f32 = vk::any(); let b: f32 = vk::any(); let c: f32 = vk::any(); let l = Mat3::from_euler(EulerRot::XYZ, a, b, c).to_cols_array(); let r = (Mat3::from_rotation_z(c) * Mat3::from_rotation_y(b) * Mat3::from_rotation_x(a)).to_cols_array(); check!(l[0] == r[0] && l[1] == r[1] && l[2] == r[2] && l[3] == r[3] && l[5] == r[5] && l[6] == r[6], "XYZ as extrinsic");',
                      fn="Mat3::from_euler", kind="canary", expect="refute", stubs=["sse", "uf_sin_cos32"], desc="canary: intrinsic XYZ specified as the reversed product"))
    return obs, "\n".join(extra)


def run(s):
    for cfg in ("sse2", "scalar"):
        obs, extra = build(cfg, s.tier)
        s.run_config(cfg, [], obs, extra_rust=extra)
    s.assumptions += [
        "A5: sin_cos is a function of its argument bits (uninterpreted), odd/even in the sign of the argument where the Euler obligations need it; std_math::sin_cos forwards to f32::sin_cos (not proved)",
        "A4: 'same proper rotation (orthonormal, det +1, unit quaternion)' is a corollary of the identities plus sin^2+cos^2=1, not machine-checked; half-angle quaternion vs full-angle matrix agreement relies on the double-angle identities",
        "to_euler / to_axis_angle / to_scaled_axis (extraction direction, gimbal lock, error growth) are NOT decided",
        "quick tier: all single-axis constructors, Rodrigues for the f32 types, the 24 orders for Mat3 and Quat (sse2) and Mat3A (scalar); thorough: every type",
    ]
    return s.finish(level_note="rotation constructors as exact identities in uninterpreted sin/cos; Rodrigues polynomial on the lattice; 24 Euler orders == product of elemental rotations",
                    trusted_base=["Kani 0.68 / CBMC 6.11 / CaDiCaL / cvc5", "model/sse.rs"],
                    not_decided=["to_euler, to_axis_angle, to_scaled_axis round trips and their error growth near singularities", "orthonormality / determinant +1 as numerical statements"])
