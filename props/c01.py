"""C01 - element-wise float vector ops equal the per-lane IEEE primitive on every backend.

Lane contracts are woven onto every element-wise method / operator impl of the seven float vector
types and proved with `proof_for_contract` over the full domain (every bit pattern of every lane,
Vec3A with a free hidden lane).  Reference / assign operator variants are proved modularly against
the contract of the value-form operator (`stub_verified`)."""
import core
from core import Ob, Contract, contract_ob
from gt import FLOAT_VECS

PROP = "C01"

UNARY = {  # method -> (primitive on lane `a`, solver, stubs)
    "abs": ("a.abs()", "cadical", []),
    "signum": ("a.signum()", "cadical", []),
    "floor": ("a.floor()", "cadical", []),
    "ceil": ("a.ceil()", "cadical", []),
    "trunc": ("a.trunc()", "cadical", []),
    "round": ("a.round()", "cadical", []),
    "recip": ("a.recip()", "cvc5", []),
    "exp": ("__verif::m_exp{w}(a)", "cadical", ["uf_exp{w}"]),
}
BINARY = {  # method(self, rhs: Self)
    "copysign": ("a.copysign(b)", "cadical", [], None),
    "min": ("a.min(b)", "cadical", [], "nonan"),
    "max": ("a.max(b)", "cadical", [], "nonan"),
    "div_euclid": ("__verif::m_div_euclid{w}(a, b)", "cadical", ["uf_div_euclid{w}"], None),
    "rem_euclid": ("__verif::m_rem_euclid{w}(a, b)", "cadical", ["uf_rem_euclid{w}"], None),
}
CMP = {"cmpeq": "a == b", "cmpne": "a != b", "cmplt": "a < b", "cmple": "a <= b", "cmpgt": "a > b", "cmpge": "a >= b"}
OPS = {"Add": ("add", "+"), "Sub": ("sub", "-"), "Mul": ("mul", "*"), "Div": ("div", "/"), "Rem": ("rem", "%")}


FWD_VV = """let a = mk::<VT>(); let b = mk::<VT>();
    let base = a OP b;
    check!(mk::same(a OP &b, base), "v OP &v"); check!(mk::same(&a OP &b, base), "&v OP &v"); check!(mk::same(&a OP b, base), "&v OP v");
    let mut x = a; x OP= b; let base = x;
    let mut x = a; x OP= &b; check!(mk::same(x, base), "v OP= &v");"""
FWD_VS = """let a = mk::<VT>(); let s: ST = vk::any();
    let base = a OP s;
    check!(mk::same(a OP &s, base), "v OP &s"); check!(mk::same(&a OP &s, base), "&v OP &s"); check!(mk::same(&a OP s, base), "&v OP s");
    let mut x = a; x OP= s; let base = x;
    let mut x = a; x OP= &s; check!(mk::same(x, base), "v OP= &s");"""
FWD_SV = """let b = mk::<VT>(); let s: ST = vk::any();
    let base = s OP b;
    check!(mk::same(s OP &b, base), "s OP &v"); check!(mk::same(&s OP &b, base), "&s OP &v"); check!(mk::same(&s OP b, base), "&s OP v");"""


def build(config, tier):
    backend = core.CONFIGS[config]["backend"]
    contracts, obs, extra = [], [], []
    for T in FLOAT_VECS:
        if config != "sse2" and not T.simd:
            continue  # config-independent source: proved once, in the sse2 (default) build
        n, w, t, N = T.n, T.w, T.t, T.name
        f = T.file(backend)
        leq = "__verif::leq%dx%d" % (w, n)
        mp, zp = "__verif::map%d" % n, "__verif::zip%d" % n
        nonan = "__verif::nonan%dx%d" % (w, n)
        ln = T.lname
        pre = "c01_%s_%s" % (config, ln)
        MASK = "BVec4" if (N == "Vec4" and backend == "scalar") else T.mask

        def add(fn, impl, ens, args, call, solver, stubs=(), req=(), path=None, desc="", cls="lane", **kw):
            p = path or "glam::%s::%s" % (N, fn)
            c = Contract(p, f, impl, fn, ensures=ens, requires=req, props=[PROP])
            contracts.append(c)
            st = ["sse"] + [s.format(w=w) for s in stubs]
            obname = "%s_%s" % (pre, kw.pop("obname", fn))
            # functions that reach an uninterpreted-function stub are proved in lemma form (the memo table
            # is global state outside the contract's write set)
            lemma_only = any(x.startswith("uf_") or x.startswith("rem") for x in st)
            c.woven = not lemma_only
            obs.extend(contract_ob(obname, PROP, c, args, call, solver=solver, stubs=st, desc=desc, cls=cls, lemma_only=lemma_only, **kw))
            return c

        A = ("self", "mk::<%s>()" % N)
        B = ("rhs", "mk::<%s>()" % N)
        for m, (prim, solver, stubs) in UNARY.items():
            prim = prim.format(w=w)
            add(m, "impl %s" % N, "|r: &%s| %s(r.to_array(), %s(self.to_array(), |a: %s| %s))" % (N, leq, mp, t, prim),
                [A], "self_.%s()" % m, solver, stubs, desc="%s::%s lane == %s" % (N, m, prim))
        for m, (prim, solver, stubs, req) in BINARY.items():
            prim = prim.format(w=w)
            rq = ["%s(self.to_array()) && %s(rhs.to_array())" % (nonan, nonan)] if req else []
            add(m, "impl %s" % N, "|r: &%s| %s(r.to_array(), %s(self.to_array(), rhs.to_array(), |a: %s, b: %s| %s))" % (N, leq, zp, t, t, prim),
                [A, B], "self_.%s(rhs)" % m, solver, stubs, req=rq, desc="%s::%s lane == %s%s" % (N, m, prim, " (non-NaN lanes)" if req else ""))
        # fract / fract_gl: modular against trunc/floor + sub
        fract_c = add("fract", "impl %s" % N, "|r: &%s| %s(r.to_array(), %s(self.to_array(), |a: %s| a - a.trunc()))" % (N, leq, mp, t),
                      [A], "self_.fract()", "cvc5", desc="%s::fract lane == a - trunc(a), proved against the contract of trunc" % N,
                      stub_verified=["glam::%s::trunc" % N])
        add("fract_gl", "impl %s" % N, "|r: &%s| %s(r.to_array(), %s(self.to_array(), |a: %s| a - a.floor()))" % (N, leq, mp, t),
            [A], "self_.fract_gl()", "cvc5", desc="%s::fract_gl lane == a - floor(a), proved against the contract of floor" % N,
            stub_verified=["glam::%s::floor" % N])
        # powf(self, n: scalar)
        add("powf", "impl %s" % N, "|r: &%s| %s(r.to_array(), %s(self.to_array(), |a: %s| __verif::m_powf%d(a, n)))" % (N, leq, mp, t, w),
            [A, ("n", "vk::any::<%s>()" % t)], "self_.powf(n)", "cadical", ["uf_powf%d" % w], desc="%s::powf lane == powf(a, n)" % N)
        # clamp
        add("clamp", "impl %s" % N,
            "|r: &%s| %s(r.to_array(), [%s])" % (N, leq, ", ".join("self.to_array()[%d].clamp(min.to_array()[%d], max.to_array()[%d])" % (i, i, i) for i in range(n))),
            [A, ("min", "mk::<%s>()" % N), ("max", "mk::<%s>()" % N)], "self_.clamp(min, max)", "cadical",
            req=["%s(self.to_array()) && %s(min.to_array()) && %s(max.to_array()) && __verif::all%d(%s(min.to_array(), max.to_array(), |a: %s, b: %s| a <= b))" % (nonan, nonan, nonan, n, zp, t, t)],
            desc="%s::clamp lane == a.clamp(min, max) for non-NaN lanes with min <= max" % N)
        # mul_add: fused; CBMC's fma model raises a floating-point-exception check, so the shim
        # `math::mul_add` is shared with the spec as an uninterpreted function
        fma_sse = (backend == "sse2" and config == "fma" and T.simd)
        add("mul_add", "impl %s" % N,
            "|r: &%s| %s(r.to_array(), [%s])" % (N, leq, ", ".join("__verif::m_mul_add%d(self.to_array()[%d], a.to_array()[%d], b.to_array()[%d])" % (w, i, i, i) for i in range(n))),
            [A, ("a", "mk::<%s>()" % N), ("b", "mk::<%s>()" % N)], "self_.mul_add(a, b)", "cadical", ["uf_mul_add%d" % w], desc="%s::mul_add lane == fused mul_add(a, b, c) (shim shared with the spec)" % N)
        # comparisons -> mask bitmask
        for m, e in CMP.items():
            add(m, "impl %s" % N, "|r: &%s| r.bitmask() == __verif::bm%d(%s(self.to_array(), rhs.to_array(), |a: %s, b: %s| %s))" % (MASK, n, zp, t, t, e),
                [A, B], "self_.%s(rhs)" % m, "cadical", desc="%s::%s mask lane == (%s)" % (N, m, e))
        add("is_nan", "impl %s" % N, "|r: &bool| *r == __verif::any%d(%s(self.to_array(), |a: %s| a.is_nan()))" % (n, mp, t), [A], "self_.is_nan()", "cadical",
            desc="%s::is_nan == any lane is NaN" % N)
        add("is_finite", "impl %s" % N, "|r: &bool| *r == __verif::all%d(%s(self.to_array(), |a: %s| a.is_finite()))" % (n, mp, t), [A], "self_.is_finite()", "cadical",
            desc="%s::is_finite == all lanes finite" % N)
        add("is_nan_mask", "impl %s" % N, "|r: &%s| r.bitmask() == __verif::bm%d(%s(self.to_array(), |a: %s| a.is_nan()))" % (MASK, n, mp, t), [A], "self_.is_nan_mask()", "cadical",
            desc="%s::is_nan_mask lane == a.is_nan()" % N)
        add("is_finite_mask", "impl %s" % N, "|r: &%s| r.bitmask() == __verif::bm%d(%s(self.to_array(), |a: %s| a.is_finite()))" % (MASK, n, mp, t), [A], "self_.is_finite_mask()", "cadical",
            desc="%s::is_finite_mask lane == a.is_finite()" % N)
        add("is_negative_bitmask", "impl %s" % N, "|r: &u32| *r == __verif::bm%d(%s(self.to_array(), |a: %s| a.is_sign_negative()))" % (n, mp, t), [A], "self_.is_negative_bitmask()", "cadical",
            desc="%s::is_negative_bitmask bit i == sign bit of lane i" % N)
        add("abs_diff_eq", "impl %s" % N, "|r: &bool| *r == __verif::all%d(%s(self.to_array(), rhs.to_array(), |a: %s, b: %s| (a - b).abs() <= max_abs_diff))" % (n, zp, t, t),
            [A, B, ("max_abs_diff", "vk::any::<%s>()" % t)], "self_.abs_diff_eq(rhs, max_abs_diff)", "cadical", desc="%s::abs_diff_eq == all |a-b| <= eps, proved against the contract of Sub" % N,
            stub_verified=["<glam::%s as core::ops::Sub<glam::%s>>::sub" % (N, N)])
        eq_spec = "__verif::all%d(%s(self_.to_array(), rhs.to_array(), |a: %s, b: %s| a == b))" % (n, zp, t, t)
        if False:  # Kani 0.68 cannot resolve `<T as PartialEq>::eq` (name clash with the derive macro)
            add("eq", "impl PartialEq for %s" % N, "|r: &bool| *r == __verif::all%d(%s(self.to_array(), rhs.to_array(), |a: %s, b: %s| a == b))" % (n, zp, t, t),
                [A, B], "self_ == rhs", "cadical", path="<glam::%s as core::cmp::PartialEq<glam::%s>>::eq" % (N, N), desc="%s == is all lanes ==" % N)
        else:
            # derived PartialEq: no function text to annotate; call-site obligation
            obs.append(Ob("%s_eq" % pre, PROP, 'let self_ = mk::<%s>(); let rhs = mk::<%s>(); check!((self_ == rhs) == %s, "eq"); check!((self_ != rhs) == !%s, "ne");' % (N, N, eq_spec, eq_spec),
                          fn="<%s as PartialEq>::eq (derived)" % N, kind="lemma", solver="cadical", clauses=2, desc="derived %s ==/!= is all lanes ==" % N))
        # horizontal min / max and positions (non-NaN lanes)
        fold_min = "self.to_array()[0]" + "".join(".min(self.to_array()[%d])" % i for i in range(1, n))
        fold_max = "self.to_array()[0]" + "".join(".max(self.to_array()[%d])" % i for i in range(1, n))
        add("min_element", "impl %s" % N, "|r: &%s| __verif::leq%d(*r, %s)" % (t, w, fold_min), [A], "self_.min_element()", "cadical", req=["%s(self.to_array())" % nonan],
            desc="%s::min_element == fold of f::min over non-NaN lanes" % N)
        add("max_element", "impl %s" % N, "|r: &%s| __verif::leq%d(*r, %s)" % (t, w, fold_max), [A], "self_.max_element()", "cadical", req=["%s(self.to_array())" % nonan],
            desc="%s::max_element == fold of f::max over non-NaN lanes" % N)
        add("min_position", "impl %s" % N, "|r: &usize| __verif::is_min_pos%d(self.to_array(), *r)" % n, [A], "self_.min_position()", "cadical", req=["%s(self.to_array())" % nonan],
            desc="%s::min_position is the index of the first minimum (non-NaN lanes)" % N)
        add("max_position", "impl %s" % N, "|r: &usize| __verif::is_max_pos%d(self.to_array(), *r)" % n, [A], "self_.max_position()", "cadical", req=["%s(self.to_array())" % nonan],
            desc="%s::max_position is the index of the first maximum (non-NaN lanes)" % N)
        # negation
        add("neg", "impl Neg for %s" % N, "|r: &%s| %s(r.to_array(), %s(self.to_array(), |a: %s| -a))" % (N, leq, mp, t), [A], "-self_", "cadical",
            path="<glam::%s as core::ops::Neg>::neg" % N, desc="-%s lane == -a" % N)
        # operators: vector-vector, vector-scalar, scalar-vector
        for tr, (m, sym) in OPS.items():
            solver = "cvc5"
            stubs = []
            ex = lambda x, y: "%s %s %s" % (x, sym, y)
            if m == "rem":
                # method-call form: the memo wrapper round the real `%` is shared by code and spec
                ex = lambda x, y: "core::ops::Rem::rem(%s, %s)" % (x, y)
            if m == "rem":
                solver = "cadical"
                stubs = ["rem%d" % w]
            vv = add(m, "impl %s<%s> for %s" % (tr, N, N), "|r: &%s| %s(r.to_array(), %s(self.to_array(), rhs.to_array(), |a: %s, b: %s| %s))" % (N, leq, zp, t, t, ex("a", "b")),
                     [A, B], "self_ %s rhs" % sym, solver, stubs, path="<glam::%s as core::ops::%s<glam::%s>>::%s" % (N, tr, N, m), obname="%s_vv" % m,
                     desc="%s %s %s lane == a %s b" % (N, sym, N, sym))
            add(m, "impl %s<%s> for %s" % (tr, t, N), "|r: &%s| %s(r.to_array(), %s(self.to_array(), |a: %s| %s))" % (N, leq, mp, t, ex("a", "rhs")),
                [A, ("rhs", "vk::any::<%s>()" % t)], "self_ %s rhs" % sym, solver, stubs, path="<glam::%s as core::ops::%s<%s>>::%s" % (N, tr, t, m), obname="%s_vs" % m,
                desc="%s %s %s lane == a %s s" % (N, sym, t, sym))
            add(m, "impl %s<%s> for %s" % (tr, N, t), "|r: &%s| %s(r.to_array(), %s(rhs.to_array(), |b: %s| %s))" % (N, leq, mp, t, ex("self", "b")),
                [("self", "vk::any::<%s>()" % t), B], "self_ %s rhs" % sym, solver, stubs, path="<%s as core::ops::%s<glam::%s>>::%s" % (t, tr, N, m), obname="%s_sv" % m,
                desc="%s %s %s lane == s %s b" % (t, sym, N, sym))
            # assign forms have their own bodies: lane contract with old()
            for (form, rt, rctor, e) in (("vv", N, "mk::<%s>()" % N, "%s(self.to_array(), %s(old(self.to_array()), rhs.to_array(), |a: %s, b: %s| %s))" % (leq, zp, t, t, ex("a", "b"))),
                                         ("vs", t, "vk::any::<%s>()" % t, "%s(self.to_array(), %s(old(self.to_array()), |a: %s| %s))" % (leq, mp, t, ex("a", "rhs")))):
                c = Contract("<glam::%s as core::ops::%sAssign<%s>>::%s_assign" % (N, tr, ("glam::" + N) if form == "vv" else t, m),
                             f, "impl %sAssign<%s> for %s" % (tr, rt, N), "%s_assign" % m, ensures="|_r| " + e, modifies="self", props=[PROP])
                contracts.append(c)
                e_tw = e.replace("old(self.to_array())", "old0").replace("self.to_array()", "self_.to_array()")
                twin = 'let mut self_ = mk::<%s>(); let rhs = %s; let old0 = self_.to_array(); self_ %s= rhs; check!(%s, "ensures of %s");' % (N, rctor, sym, e_tw, c.path)
                nm = "%s_%s_assign_%s" % (pre, m, form)
                dsc = "%s %s= %s lane == old a %s b" % (N, sym, rt, sym)
                if stubs:
                    c.woven = False
                    obs.append(Ob(nm, PROP, twin, fn=c.path, kind="contract-as-lemma", solver=solver, stubs=["sse"] + stubs, desc=dsc))
                else:
                    obs.append(Ob(nm, PROP, "let mut self_ = mk::<%s>(); let rhs = %s; self_ %s= rhs;" % (N, rctor, sym), fn=c.path, kind="contract", contract=c.path,
                                  solver=solver, stubs=["sse"] + stubs, desc=dsc, split=nm + "__split"))
                    obs.append(Ob(nm + "__split", PROP, twin, fn=c.path, kind="contract-twin", solver=solver, stubs=["sse"] + stubs, desc=dsc))
            # reference forms forward to the value forms: proved with the five value forms replaced by
            # uninterpreted functions, i.e. for ANY function in their place (pure bit-level obligation)
            for (form, body) in (("vv", FWD_VV), ("vs", FWD_VS), ("sv", FWD_SV)):
                body = body.replace("OP", sym).replace("VT", N).replace("ST", t)
                obs.append(Ob("%s_%s_refs_%s" % (pre, m, form), PROP, body, fn="%s %s (reference forms, %s)" % (N, tr, form), kind="lemma", solver="cadical",
                              stubs=["sse_uf", "arith_uf%d" % w], clauses=body.count("check!"), cls="forwarding", plain=True,
                              desc="every &/&mut form of %s %s (%s) returns bit-for-bit what the value form returns on the same operands; "
                                   "primitive + - * / %% uninterpreted, i.e. for any function in their place" % (N, sym, form)))
        # Sum / Product: left folds -- bounded stand-in (iterator loop), arrays of length <= 3
        for (tr, m, sym, unit) in (("Sum", "sum", "+", "0.0"), ("Product", "product", "*", "1.0")):
            spec = "%s(x.to_array(), %s(%s(%s([%s; %d], v[0].to_array(), |a: %s, b: %s| a %s b), v[1].to_array(), |a: %s, b: %s| a %s b), v[2].to_array(), |a: %s, b: %s| a %s b))" % (
                leq, zp, zp, zp, unit, n, t, t, sym, t, t, sym, t, t, sym)
            body = """let v = [mk::<{N}>(), mk::<{N}>(), mk::<{N}>()];
    let x: {N} = v.iter().copied().{m}(); check!({spec}, "{m} by value");
    let x: {N} = v.iter().{m}(); check!({spec}, "{m} by ref");""".format(N=N, m=m, spec=spec)
            obs.append(Ob("%s_%s" % (pre, m), PROP, body, fn="<%s as %s>::%s" % (N, tr, m), kind="lemma", solver="cvc5", stubs=["sse"], unwind=5,
                          bounded="iterator length 3 (unwind 5)", clauses=2, tier="thorough",
                          desc="%s over an iterator of 3 == left fold of %s from %s" % (tr, sym, unit)))
    # canaries: deliberately false clauses must be refuted
    if config in ("sse2",):
        obs.append(Ob("c01_sse2_canary_floor_is_ceil", PROP,
                      'let a = mk::<Vec4>(); let r = a.floor(); check!(__verif::leq32x4(r.to_array(), __verif::map4(a.to_array(), |a: f32| a.ceil())), "floor == ceil");',
                      fn="glam::Vec4::floor", kind="canary", expect="refute", desc="canary: floor specified as ceil"))
        obs.append(Ob("c01_sse2_canary_add_wrong_lane", PROP,
                      'let a = mk::<Vec3A>(); let b = mk::<Vec3A>(); let r = a + b; check!(__verif::leq32(r.to_array()[0], a.to_array()[0] + b.to_array()[1]), "wrong lane");',
                      fn="Vec3A + Vec3A", kind="canary", expect="refute", solver="cvc5", desc="canary: x lane of a+b specified with b.y"))
    return contracts, obs, "\n".join(extra)


def run(s):
    configs = ["sse2", "scalar"]
    for cfg in configs:
        contracts, obs, extra = build(cfg, s.tier)
        s.run_config(cfg, contracts, obs, extra_rust=extra)
    s.assumptions += ASSUMPTIONS
    return s.finish(level_note=NOTE, trusted_base=TRUSTED, not_decided=NOT_DECIDED)


NOTE = ("Every element-wise method/operator of Vec2, Vec3, Vec3A, Vec4, DVec2-4 carries a woven kani::ensures lane contract "
        "(result lane is IEEE-equal to the Rust primitive on that lane's operands) discharged by proof_for_contract over all bit patterns; "
        "ref/assign operator forms are proved against the value-form contract (stub_verified).")
TRUSTED = ["Kani 0.68 MIR->GOTO translation and CBMC 6.11 IEEE-754 bit-blasting; CaDiCaL; CBMC SMT2 back end + cvc5 1.0",
           "model/sse.rs lane-wise model of SSE/SSE2 intrinsics (validated differentially on this CPU at setup)"]
ASSUMPTIONS = [
    "A2: SSE/SSE2 intrinsic model (model/sse.rs) is trusted; validated by differential execution, not proved",
    "A5: exp/powf/div_euclid/rem_euclid: the glam math shim is an uninterpreted function shared by code and spec; that std_math::f forwards to f32::f/f64::f is not proved here",
    "scalar `%`: <f32 as Rem>::rem is stubbed by a memo wrapper round the real `%` (sharing only, no abstraction)",
    "NEON and wasm32 back ends and core-simd are not compiled by the verifier: not covered",
    "Sum/Product are bounded stand-ins (iterator length 3), thorough tier only, never counted as proved",
]
NOT_DECIDED = ["Sum/Product over iterators of unbounded length (bounded stand-in only)", "core-simd, NEON, wasm32 builds", "libm math backend"]
