"""C20 - glam outputs satisfy glam preconditions; assertions never change results.

Configuration `glam-assert` (sse2 and scalar-math).
 * documented violations panic: always-panics obligations (the call never returns) for the violating
   class of every kind of glam_assert site: non-unit axis / quaternion / direction (length^2 outside
   1 +- 2e-4 - stated exactly on power-of-two lanes), min > max, negative clamp bound, zero scale,
   zero determinant, non-affine last row, non-positive near plane.
 * assertions never change a returned value: (a) frame scan of src/macros.rs on every run: glam_assert!
   expands to exactly `assert!(..)` or to nothing, and no other item is cfg-gated on the assert
   features - so enabling them can only add panics; (b) the exact-lattice value obligations of
   C03/C04/C05 for unit lattice quaternions are RE-DISCHARGED in the assert build and give the same
   exact values (equal spec => equal value).
 * outputs satisfy preconditions, one step, exactly: named constants and axis vectors, the lattice unit
   quaternions and all their products / conjugates / inverses pass is_normalized; matrices built from
   them by from_quat / from_rotation_translation / from_scale_rotation_translation (unit scale) pass the
   affine and unit-axis checks that transform_point3 / to_scale_rotation_translation assert (no panic).
NOT decided: arbitrary-length chains stay within the 2e-4 tolerance (accumulated rounding over histories);
normalize()/slerp/rotate_towards outputs passing is_normalized for arbitrary inputs (needs a real sqrt/sin)."""
import os, re
import core
from core import Ob
import weave

PROP = "C20"
UNCOVERED = []


def macro_scan():
    """frame condition: glam_assert! is `assert!` or nothing; no other cfg on the assert features"""
    src = open(os.path.join(weave.REPO, "src", "macros.rs")).read()
    norm = re.sub(r"\s+", " ", src)
    ok1 = 'macro_rules! glam_assert { ($($arg:tt)*) => ( assert!($($arg)*); ) }' in norm
    ok2 = 'macro_rules! glam_assert { ($($arg:tt)*) => {}; }' in norm
    others = []
    for root, _, names in os.walk(os.path.join(weave.REPO, "src")):
        for n in names:
            if n.endswith(".rs") and n != "macros.rs":
                t = open(os.path.join(root, n)).read()
                for m in re.finditer(r'cfg[^\n]*feature = "(debug-)?glam-assert"', t):
                    others.append(os.path.relpath(os.path.join(root, n), weave.REPO))
    return ok1 and ok2 and not others, {"assert_arm": ok1, "empty_arm": ok2, "other_cfg_sites": others}


# ---- generated: one always-panics obligation per DOCUMENTED panic condition (`# Panics` paragraph of every public
# function of the float types, scanned from the current source on every run); conditions the generator does not
# model (matrix rows / columns not normalized ...) are listed as uncovered and have hand-written representatives.
import props.c18 as c18
HV = ["hv_sqrt", "hv_sin_cos", "hv_sin", "hv_tan", "hv_atan2", "hv_exp", "hv_powf", "hv_mul_add", "hv_div_euclid", "hv_rem_euclid"]


def doc_violations(doc, argtypes, N, n_of):
    """The SPEC is the function's documentation (`# Panics` paragraph), not its glam_assert! text: so a weakened or
    removed assertion fails the obligation instead of silently changing it.  -> list of (overrides, assume, what)"""
    m = re.search(r"# Panics\s*(.*?)(?:\n\s*\n|\Z)", doc, re.S)
    if not m:
        return [], None
    txt = re.sub(r"\s+", " ", m.group(1))
    if "glam_assert" not in txt:
        return [], None
    out = []
    ty_of = lambda v: N if v == "self" else argtypes.get(v)
    zero = lambda ty: "<%s>::from_xyzw(0.0, 0.0, 0.0, 0.0)" % ty if ty in ("Quat", "DQuat") else "<%s>::ZERO" % ty
    handled = False
    mm = re.search(r"if ((?:`\w+`(?:, | or | and )?)+) (?:is|are) not normalized", txt)
    if mm:
        handled = True
        for v in re.findall(r"`(\w+)`", mm.group(1)):
            ty = ty_of(v)
            if ty and (ty in n_of or ty in ("Quat", "DQuat")):
                out.append(([(v, zero(ty))], "", "`%s` is not normalized (zero)" % v))
    if re.search(r"`min` is greater than `max`", txt):
        handled = True
        ty = argtypes.get("min")
        if ty in ("f32", "f64"):
            out.append(([], "vk::assume(min > max);", "min > max"))
        elif ty in n_of:
            out.append(([], "let li: usize = vk::any(); vk::assume(li < %d); vk::assume(min.to_array()[li] > max.to_array()[li]);" % n_of[ty], "min > max in some lane"))
    for v in ("min", "max"):
        if re.search(r"(?:either `min` or `max`|`%s`) is negative" % v, txt) and argtypes.get(v) in ("f32", "f64"):
            handled = True
            out.append(([], "vk::assume(%s < 0.0);" % v, "%s is negative" % v))
    mm = re.search(r"if ((?:`z_\w+`(?: or )?)+) (?:is|are) less than or equal to zero", txt)
    if mm:
        handled = True
        for v in re.findall(r"`(\w+)`", mm.group(1)):
            if argtypes.get(v) in ("f32", "f64"):
                out.append(([], "vk::assume(%s <= 0.0);" % v, "%s <= 0" % v))
    if re.search(r"the determinant of `self` is zero", txt) and N.replace("D", "").startswith(("Mat", "Affine")):
        handled = True
        out.append(([("self", "<%s>::ZERO" % N)], "", "the determinant of self is zero (zero matrix)"))
    if re.search(r"all elements of `scale` are zero", txt) and argtypes.get("scale") in n_of:
        handled = True
        out.append(([("scale", "<%s>::ZERO" % argtypes["scale"])], "", "all elements of scale are zero"))
    if re.search(r"contains any zero elements", txt) and argtypes.get("scale") in n_of:
        handled = True
        out.append(([], "let li: usize = vk::any(); vk::assume(li < %d); vk::assume(scale.to_array()[li] == 0.0);" % n_of[argtypes["scale"]], "scale has a zero element"))
    if re.search(r"`rhs` (?:is zero length|has a length of zero)", txt) and argtypes.get("rhs") in n_of:
        handled = True
        out.append(([("rhs", "<%s>::ZERO" % argtypes["rhs"])], "", "rhs has zero length"))
    return out, (None if handled else txt)


def site_obligations(config, obs, uncovered):
    backend = core.CONFIGS[config]["backend"]
    n_of = {T.name: T.n for T in c18.FLOAT_VECS}
    seen = 0
    for (N, t, f, simd, nlanes, kind) in c18.types(backend):
        if config.endswith("scalar") and not simd:
            continue
        w = 32 if t == "f32" else 64
        src = open(os.path.join(weave.REPO, f)).read()
        for am in re.finditer(r"\b(\w+) as (\w+)\b", " ".join(re.findall(r"^use crate::[^;]+;", src, re.M))):
            if am.group(2) in c18.KNOWN_T:
                src = re.sub(r"\b%s\b" % am.group(2), am.group(1), src)
        for m in re.finditer(r"((?:^    ///[^\n]*\n)+)(?:^    #\[[^\n]*\]\n)*^    pub (?:const )?fn (\w+)(<[^>]*>)?\(\s*([^)]*?)\s*\)", src, re.M | re.S):
            doc, fn, gen, args = re.sub(r"^    /// ?", "", m.group(1), flags=re.M), m.group(2), m.group(3), re.sub(r"\s+", " ", m.group(4))
            if "# Panics" not in doc or "glam_assert" not in doc:
                continue
            parts = [a.strip() for a in args.split(",") if a.strip()] if args else []
            recv, names, argtypes, exprs, ok = None, [], {}, {}, not gen
            for a in parts:
                if a in ("self", "mut self", "&self", "&mut self"):
                    recv = a
                    continue
                pm = re.match(r"^(?:mut )?(\w+): (.+)$", a)
                e = c18.arg_expr(pm.group(2).strip(), N, t) if pm else None
                if e is None:
                    ok = False
                    break
                ty = pm.group(2).strip()
                names.append(pm.group(1))
                argtypes[pm.group(1)] = ty.replace("&", "").replace("crate::", "").replace("Self", N)
                exprs[pm.group(1)] = (e, ty.startswith("&"))
            if not ok:
                uncovered.append("%s::%s(%s): not callable by the generator" % (N, fn, args))
                continue
            viol, left = doc_violations(doc, argtypes, N, n_of)
            if left:
                uncovered.append("%s::%s: documented panic not modelled: %s" % (N, fn, left[:110]))
            for k_, (over, assume, what) in enumerate(viol):
                over = dict(over)
                lines = []
                for nm in names:
                    e, isref = exprs[nm]
                    lines.append("let %s = %s;" % (nm, over[nm] if nm in over else (e[1:] if isref else e)))
                selfv = over.get("self", "mk::<%s>()" % N)
                call_args = ", ".join(("&" + nm) if exprs[nm][1] else nm for nm in names)
                if recv:
                    lines.append(("let mut s_ = %s;" if "mut" in recv else "let s_ = %s;") % selfv)
                    lines.append(assume)
                    lines.append("let _r = s_.%s(%s);" % (fn, call_args))
                else:
                    lines.append(assume)
                    lines.append("let _r = <%s>::%s(%s);" % (N, fn, call_args))
                seen += 1
                slug = re.sub(r"[^a-z0-9]+", "_", what.lower()).strip("_")[:40]
                obs.append(Ob("c20_%s_site_%s_%s_%s" % (config, N.lower(), fn, slug), PROP, " ".join(l for l in lines if l), fn="%s::%s" % (N, fn), kind="panic", panic=True, solver="cadical",
                              stubs=["sse_hv"] + ["%s%d" % (u, w) for u in HV], cls="control", tier="quick" if (simd or t == "f32") else "thorough",
                              desc="%s::%s is documented to panic under glam_assert when %s: the call never returns (every other argument arbitrary)" % (N, fn, what)))
    return seen


def build(config, tier):
    obs = []
    cfgname = config
    site_obligations(config, obs, UNCOVERED)
    P = lambda name, body, fn, desc, stubs=("sse",), tier="quick": obs.append(
        Ob("c20_%s_%s" % (cfgname, name), PROP, body, fn=fn, kind="panic", panic=True, solver="cadical", stubs=list(stubs), cls="control", tier=tier, desc=desc))
    # a vector that is certainly not normalized: lanes powers of two with |v|^2 >= 4 or == 0.25
    nonunit3 = "{ let k: u8 = vk::any(); let s: bool = vk::any(); let l: f32 = if k % 3 == 0 { 2.0 } else if k % 3 == 1 { 0.5 } else { 4.0 }; Vec3::new(if s { l } else { 0.0 }, if s { 0.0 } else { l }, 0.0) }"
    nonunitq = "{ let k: u8 = vk::any(); let l: f32 = if k % 2 == 0 { 2.0 } else { 0.5 }; Quat::from_xyzw(0.0, l, 0.0, 0.0) }"
    P("vec3_clamp_min_gt_max", "let a = mk::<Vec3>(); let lo = mk::<Vec3>(); let hi = mk::<Vec3>(); vk::assume(lo.to_array()[1] > hi.to_array()[1]); let _r = a.clamp(lo, hi);", "Vec3::clamp", "clamp with min > max in some lane panics")
    P("vec4_clamp_min_gt_max", "let a = mk::<Vec4>(); let lo = mk::<Vec4>(); let hi = mk::<Vec4>(); vk::assume(lo.to_array()[3] > hi.to_array()[3]); let _r = a.clamp(lo, hi);", "Vec4::clamp", "clamp with min > max in some lane panics")
    P("vec3a_clamp_length_negative", "let a = mk::<Vec3A>(); let lo: f32 = vk::any(); let hi: f32 = vk::any(); vk::assume(lo < 0.0 || lo > hi); let _r = a.clamp_length(lo, hi);", "Vec3A::clamp_length",
      "clamp_length with a negative bound or min > max panics", stubs=("sse", "uf_sqrt32"))
    P("vec3_clamp_length_max_negative", "let a = mk::<Vec3>(); let hi: f32 = vk::any(); vk::assume(hi < 0.0); let _r = a.clamp_length_max(hi);", "Vec3::clamp_length_max", "clamp_length_max with a negative bound panics", stubs=("sse", "uf_sqrt32"))
    P("quat_from_axis_angle_nonunit", "let ax = %s; let a: f32 = vk::any(); let _q = Quat::from_axis_angle(ax, a);" % nonunit3, "Quat::from_axis_angle", "non-unit axis panics", stubs=("sse", "uf_sin_cos32"))
    P("mat3_from_axis_angle_nonunit", "let ax = %s; let a: f32 = vk::any(); let _q = Mat3::from_axis_angle(ax, a);" % nonunit3, "Mat3::from_axis_angle", "non-unit axis panics", stubs=("sse", "uf_sin_cos32"))
    P("mat4_from_axis_angle_nonunit", "let ax = %s; let a: f32 = vk::any(); let _q = Mat4::from_axis_angle(ax, a);" % nonunit3, "Mat4::from_axis_angle", "non-unit axis panics", stubs=("sse", "uf_sin_cos32"))
    P("quat_inverse_nonunit", "let q = %s; let _r = q.inverse();" % nonunitq, "Quat::inverse", "inverse of a non-unit quaternion panics")
    P("quat_mul_vec3_nonunit", "let q = %s; let v = mk::<Vec3>(); let _r = q * v;" % nonunitq, "Quat::mul_vec3", "rotating by a non-unit quaternion panics")
    P("mat3_from_quat_nonunit", "let q = %s; let _r = Mat3::from_quat(q);" % nonunitq, "Mat3::from_quat", "from_quat of a non-unit quaternion panics")
    P("affine3a_from_srt_nonunit", "let q = %s; let _r = Affine3A::from_scale_rotation_translation(mk::<Vec3>(), q, mk::<Vec3>());" % nonunitq, "Affine3A::from_scale_rotation_translation", "non-unit rotation panics")
    P("quat_slerp_nonunit", "let q = %s; let p = mk::<Quat>(); let s: f32 = vk::any(); let _r = q.slerp(p, s);" % nonunitq, "Quat::slerp", "slerp from a non-unit quaternion panics",
      stubs=("sse", "uf_sqrt32", "uf_acos_approx32", "uf_sin32"))
    P("vec3_reflect_nonunit_normal", "let v = mk::<Vec3>(); let n = %s; let _r = v.reflect(n);" % nonunit3, "Vec3::reflect", "reflect about a non-unit normal panics")
    P("vec3_project_onto_normalized_nonunit", "let v = mk::<Vec3>(); let n = %s; let _r = v.project_onto_normalized(n);" % nonunit3, "Vec3::project_onto_normalized", "non-unit direction panics")
    P("vec3_normalize_zero", "unsafe { crate::uf::SQRT_PINNED = true; } let _r = Vec3::ZERO.normalize();", "Vec3::normalize", "normalize of the zero vector panics (result not finite)", stubs=("sse", "uf_sqrt32"), tier="thorough")
    P("mat4_transform_point3_nonaffine", "let m = mk::<Mat4>(); let p = mk::<Vec3>(); vk::assume(m.to_cols_array()[3] > 1.0); let _r = m.transform_point3(p);", "Mat4::transform_point3", "non-affine last row panics")
    P("mat4_transform_vector3_nonaffine", "let m = mk::<Mat4>(); let p = mk::<Vec3>(); vk::assume(m.to_cols_array()[15] < 0.5); let _r = m.transform_vector3(p);", "Mat4::transform_vector3", "non-affine last row panics")
    P("mat3a_inverse_singular", "let ai = sp::lat9(1); vk::assume(sp::det3(ai) == 0); let m = mk::mat3a_of(sp::f32x9(ai)); let _r = m.inverse();", "Mat3A::inverse", "inverse of a singular lattice matrix panics (determinant exactly 0)")
    P("mat3_inverse_singular", "let ai = sp::lat9(1); vk::assume(sp::det3(ai) == 0); let m = Mat3::from_cols_array(&sp::f32x9(ai)); let _r = m.inverse();", "Mat3::inverse", "inverse of a singular lattice matrix panics")
    P("mat4_from_scale_zero", "let _r = Mat4::from_scale(Vec3::ZERO);", "Mat4::from_scale", "all-zero scale panics")
    P("mat4_to_srt_zero_scale", "let ai = sp::lat9(1); vk::assume(ai[0] == 0 && ai[1] == 0 && ai[2] == 0); let m = Mat4::from_mat3(Mat3::from_cols_array(&sp::f32x9(ai))); let _r = m.to_scale_rotation_translation();",
      "Mat4::to_scale_rotation_translation", "zero determinant panics", stubs=("sse", "uf_sqrt32"))
    P("mat4_perspective_rh_near_nonpositive", "let n: f32 = vk::any(); vk::assume(n <= 0.0); let _r = Mat4::perspective_rh(1.0, 1.0, n, 10.0);", "Mat4::perspective_rh", "non-positive near plane panics", stubs=("sse", "uf_sin_cos32"))
    P("mat4_look_to_rh_nonunit_dir", "let d = %s; let _r = Mat4::look_to_rh(mk::<Vec3>(), d, Vec3::Y);" % nonunit3, "Mat4::look_to_rh", "non-unit direction panics", stubs=("sse", "uf_sqrt32"))
    # ---- exact producers satisfy the preconditions (no panic in the assert build, exact values)
    L = lambda name, body, fn, desc, stubs=("sse",), tier="quick", clauses=1: obs.append(
        Ob("c20_%s_%s" % (cfgname, name), PROP, body, fn=fn, kind="lemma", solver="cadical", stubs=list(stubs), cls="lattice", tier=tier, clauses=clauses, desc=desc))
    L("constants_normalized", "check!(Vec3::X.is_normalized() && Vec3::Y.is_normalized() && Vec3::Z.is_normalized() && Vec3::NEG_X.is_normalized() && Vec3A::Z.is_normalized() && Vec2::X.is_normalized() && Vec4::W.is_normalized() && Quat::IDENTITY.is_normalized() && !Vec3::ZERO.is_normalized() && !Vec3::ONE.is_normalized(), \"axis constants are unit\");",
      "named constants", "axis constants and Quat::IDENTITY pass is_normalized; ZERO and ONE do not")
    L("unit_quat_products", "unsafe { crate::uf::SQRT_PINNED = true; } let qi = sp::lat4(1); let pi = sp::lat4(1); vk::assume(sp::norm2(qi) == 1 && sp::norm2(pi) == 1); let q = Quat::from_array(sp::f32x4(qi)); let p = Quat::from_array(sp::f32x4(pi));\n"
      "    let r = q * p; check!(q.is_normalized() && r.is_normalized() && q.inverse().is_normalized() && q.conjugate().is_normalized() && (r * q.inverse()).is_normalized(), \"products stay unit\");\n"
      "    let v = mk::<Vec3>(); let _x = r * v; let _y = q.inverse() * v; let _m = Mat3::from_quat(r); let _l = q.lerp(p, 0.0);",
      "unit quaternion products", "products, inverses and conjugates of the lattice unit quaternions pass is_normalized exactly and are accepted (no panic) by q*v, from_quat, lerp",
      stubs=("sse", "uf_sqrt32"))
    L("trs_outputs_accepted", "let qi = sp::lat4(1); vk::assume(sp::norm2(qi) == 1); let ti = sp::lat3(2); let q = Quat::from_array(sp::f32x4(qi)); let t = Vec3::from_array(sp::f32x3(ti)); let p = Vec3::from_array(sp::f32x3(sp::lat3(2)));\n"
      "    let m = Mat4::from_rotation_translation(q, t); let a = Affine3A::from_rotation_translation(q, t); let r1 = m.transform_point3(p).to_array(); let r2 = a.transform_point3(p).to_array(); let r3 = m.transform_vector3(p).to_array();\n"
      "    let e = sp::qrot(qi, [0, 0, 0]); check!(r1[0] == r2[0] && r1[1] == r2[1] && r1[2] == r2[2], \"same values with assertions enabled\");\n"
      "    let m3 = Mat3::from_quat(q); let q2 = Quat::from_mat3(&m3); let _k = e;",
      "TRS outputs", "matrices from from_rotation_translation with a lattice unit quaternion pass the affine check of transform_point3/transform_vector3 and the unit-axis check of from_mat3 (no panic), with the exact lattice values",
      stubs=("sse", "uf_sqrt32"))
    # ---- value obligations re-discharged in the assert build (equal spec => equal value)
    L("redischarge_mul_vec3", "let qi = sp::lat4(1); vk::assume(sp::norm2(qi) == 1); let vi = sp::lat3(1); let q = Quat::from_array(sp::f32x4(qi)); let v = Vec3::from_array(sp::f32x3(vi)); let r = q.mul_vec3(v).to_array(); let e = sp::qrot(qi, vi);\n"
      "    check!(sp::eqi32(r[0], e[0]) && sp::eqi32(r[1], e[1]) && sp::eqi32(r[2], e[2]), \"same exact value as without assertions\");",
      "Quat::mul_vec3 (assert build)", "C04 lattice obligation re-discharged with assertions enabled: identical exact values for unit lattice quaternions")
    L("redischarge_from_quat", "let qi = sp::lat4(1); vk::assume(sp::norm2(qi) == 1); let q = Quat::from_array(sp::f32x4(qi)); let m = Mat3A::from_quat(q).to_cols_array(); let e = sp::qmat(qi);\n"
      "    check!(%s, \"same exact value as without assertions\");" % " && ".join("sp::eqi32(m[%d], e[%d])" % (i, i) for i in range(9)),
      "Mat3A::from_quat (assert build)", "C05 lattice obligation re-discharged with assertions enabled")
    L("redischarge_inverse", "let ai = sp::lat9(1); let di = sp::det3(ai); vk::assume(di == 1 || di == -1 || di == 2 || di == -2); let a = mk::mat3a_of(sp::f32x9(ai)); let r = a.inverse().to_cols_array(); let ad = sp::adj3(ai);\n"
      "    check!(%s, \"same exact value as without assertions\");" % " && ".join("sp::eqi32(r[%d] * (di as f32), ad[%d])" % (i, i) for i in range(9)),
      "Mat3A::inverse (assert build)", "C03 lattice obligation re-discharged with assertions enabled (non-singular matrices)", tier="thorough")
    obs.append(Ob("c20_%s_canary_nonunit_accepted" % cfgname, PROP, "let q = Quat::from_xyzw(0.0, 2.0, 0.0, 0.0); let _r = q.inverse();", fn="Quat::inverse", kind="canary", expect="refute",
                  desc="canary: a non-unit quaternion claimed to be accepted by inverse() in the assert build"))
    return obs


def run(s):
    ok, scan = macro_scan()
    if not ok:
        s.undecided.append({"ob": "macro_scan", "config": "*", "why": "src/macros.rs no longer has the expected shape (glam_assert! = assert! | nothing, no other cfg site): %s" % scan})
    del UNCOVERED[:]
    for cfg in ("assert", "assert_scalar"):
        s.run_config(cfg, [], build(cfg, s.tier))
    s.assumptions += [
        "A7: 'assertions never change a returned value' rests on the syntactic frame scan of src/macros.rs (glam_assert! expands to assert!(..) or to nothing, no other cfg on the assert features) plus re-discharged lattice value obligations",
        "generated obligations: one always-panics obligation per documented panic condition (`# Panics` doc paragraph, scanned from the current source) - the documentation is the spec, not the glam_assert! text; non-normalized operands are represented by the zero vector / zero quaternion",
        "non-unit inputs are represented by power-of-two lanes with |v|^2 in {1/4, 4, 16} (exactly outside 1 +- 2e-4)",
        "A5: sqrt / sin_cos uninterpreted where reached",
    ]
    return s.finish(level_note="documented violations always panic; assertion macro frame scan + re-discharged value obligations; exact producers satisfy the asserted preconditions",
                    trusted_base=["Kani 0.68 / CBMC 6.11 / CaDiCaL", "model/sse.rs"], extra_cov={"macro_scan": scan, "assertion_sites_without_generated_obligation": sorted(set(UNCOVERED))},
                    not_decided=["chains of up to 12 operations stay within the 2e-4 tolerance (accumulated rounding)", "normalize / slerp / rotate_towards / any_orthonormal_* outputs pass is_normalized for arbitrary inputs",
                                 "assertion sites over internal values (other_len_sq_rcp, normalized, det, dot0, row(k)): one hand-written representative per kind; listed per run under assertion_sites_without_generated_obligation"])
