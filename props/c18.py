"""C18 - only documented panics occur and no access goes out of bounds.

Build WITHOUT glam-assert. For every public function of the float vector / quaternion / matrix /
affine types found in the current source (signatures parsed on every run; anything the generator
cannot call is listed as uncovered) a harness calls it with FULLY SYMBOLIC arguments - every bit
pattern: zeros, subnormals, infinities, NaN - with the transcendental library functions replaced
by unconstrained uninterpreted functions (an over-approximation, so the proof covers the real ones).
Obligation: no failed panic / abort / arithmetic / pointer / bounds check: Kani's memory model
checks every dereference, union read, pointer cast and slice index in the SIMD code paths.
Documented panics: slice functions on slices of EVERY length: len < N => the call never returns;
len >= N => exactly the first N elements are read / written and the rest of the destination is
bit-identical (frame; Vec3A / Mat3A never touch a fourth element per column); Index/IndexMut out of
range => never returns (col/row/minors/masks are C06/C15).
"Raised before any memory is touched" cannot be observed after a panic inside the verifier: it is
checked by a BOUNDED native stand-in on the real code (catch_unwind, every short length, sentinel data)."""
import os, re
import core
from core import Ob
import weave
from gt import FLOAT_VECS, MATS, AFFINES, MAT_BY_NAME, BY_NAME

PROP = "C18"
UF_ALL = ["hv_sqrt", "hv_sin_cos", "hv_sin", "hv_tan", "hv_atan2", "hv_exp", "hv_powf", "hv_mul_add", "hv_div_euclid", "hv_rem_euclid"]
KNOWN_T = set([v.name for v in FLOAT_VECS] + [m.name for m in MATS + AFFINES] + ["Quat", "DQuat", "BVec2", "BVec3", "BVec4", "BVec3A", "BVec4A"])


def types(backend):
    out = []
    for T in FLOAT_VECS:
        out.append((T.name, T.t, T.file(backend), T.simd, T.n, "vec"))
    out.append(("Quat", "f32", "src/f32/%s/quat.rs" % backend, True, 4, "quat"))
    out.append(("DQuat", "f64", "src/f64/dquat.rs", False, 4, "quat"))
    for M in MATS + AFFINES:
        out.append((M.name, M.t, M.file(backend), M.simd or M.name in ("Affine2", "Affine3A"), M.N, "mat"))
    return out


def arg_expr(ty, N, t):
    ty = ty.strip()
    if ty in ("Self", N):
        return "mk::<%s>()" % N
    if ty in ("&Self", "&" + N):
        return "&mk::<%s>()" % N
    if ty in ("f32", "f64", "bool", "u32", "i32"):
        return "vk::any::<%s>()" % ty
    if ty.replace("crate::", "") in KNOWN_T:
        return "mk::<%s>()" % ty.replace("crate::", "")
    if ty.startswith("&") and ty[1:].replace("crate::", "") in KNOWN_T:
        return "&mk::<%s>()" % ty[1:].replace("crate::", "")
    if ty == "EulerRot":
        return "any_euler()"
    m = re.match(r"^&?\[(f32|f64); (\d+)\]$", ty)
    if m:
        return ("&" if ty.startswith("&") else "") + "vk::any::<[%s; %s]>()" % (m.group(1), m.group(2))
    m = re.match(r"^&\[\[(f32|f64); (\d+)\]; (\d+)\]$", ty)
    if m:
        return "&vk::any::<[[%s; %s]; %s]>()" % (m.group(1), m.group(2), m.group(3))
    return None


EULER = """
pub fn any_euler() -> EulerRot {
    use EulerRot::*;
    let k: u8 = vk::any();
    match k % 24 { 0 => ZYX, 1 => ZXY, 2 => YXZ, 3 => YZX, 4 => XYZ, 5 => XZY, 6 => ZYZ, 7 => ZXZ, 8 => YXY, 9 => YZY, 10 => XYX, 11 => XZX,
        12 => ZYXEx, 13 => ZXYEx, 14 => YXZEx, 15 => YZXEx, 16 => XYZEx, 17 => XZYEx, 18 => ZYZEx, 19 => ZXZEx, 20 => YXYEx, 21 => YZYEx, 22 => XYXEx, _ => XZXEx }
}
"""


def build(config, tier):
    backend = core.CONFIGS[config]["backend"]
    obs, uncovered = [], []
    for (N, t, f, simd, nlanes, kind) in types(backend):
        if config != "sse2" and not simd:
            continue
        w = 32 if t == "f32" else 64
        src = open(os.path.join(weave.REPO, f)).read()
        # the scalar Vec4 names its mask through `use crate::BVec4 as BVec4A`: resolve local aliases
        for am in re.finditer(r"\b(\w+) as (\w+)\b", " ".join(re.findall(r"^use crate::[^;]+;", src, re.M))):
            if am.group(2) in KNOWN_T:
                src = re.sub(r"\b%s\b" % am.group(2), am.group(1), src)
        ln = N.lower()
        calls = []   # (fn name, statement)
        for m in re.finditer(r"^    pub (?:const )?fn (\w+)(<[^>]*>)?\(\s*([^)]*?)\s*\)(?: -> ([^{]+?))? \{", src, re.M | re.S):
            fn, gen, args = m.group(1), m.group(2), re.sub(r"\s+", " ", m.group(3))
            if gen:
                uncovered.append("%s::%s (generic)" % (N, fn))
                continue
            parts = [a.strip() for a in args.split(",") if a.strip()] if args else []
            recv = None
            exprs = []
            ok = True
            for a in parts:
                if a in ("self", "mut self"):
                    recv = "mk::<%s>()" % N
                    continue
                if a in ("&self",):
                    recv = "mk::<%s>()" % N
                    continue
                if a == "&mut self":
                    recv = "MUT"
                    continue
                pm = re.match(r"^(?:mut )?(\w+): (.+)$", a)
                if not pm:
                    ok = False
                    break
                ty = pm.group(2)
                if ty in ("usize",) or "[f32]" in ty or "[f64]" in ty:
                    ok = False  # index / slice functions: handled below
                    break
                e = arg_expr(ty, N, t)
                if e is None:
                    ok = False
                    break
                exprs.append(e)
            if not ok:
                if not any(k in args for k in ("usize", "[f32]", "[f64]")):
                    uncovered.append("%s::%s(%s)" % (N, fn, args))
                continue
            if recv == "MUT":
                calls.append((fn, "{ let mut x = mk::<%s>(); let _r = x.%s(%s); }" % (N, fn, ", ".join(exprs))))
            elif recv:
                calls.append((fn, "{ let _r = %s.%s(%s); }" % (recv, fn, ", ".join(exprs))))
            else:
                calls.append((fn, "{ let _r = <%s>::%s(%s); }" % (N, fn, ", ".join(exprs))))
        # operator traits: exercised through C01/C03/C04 contracts (they panic-check as well)
        B = 6
        stubs = ["sse_hv"] + ["%s%d" % (u, w) for u in UF_ALL]
        quick = simd or t == "f32"
        for bi in range(0, len(calls), B):
            chunk = calls[bi:bi + B]
            name = "c18_%s_%s_total_%d" % (config, ln, bi // B)
            body = "\n    ".join(c[1] for c in chunk)
            spl = body
            obs.append(Ob(name, PROP, body, fn="%s::{%s}" % (N, ", ".join(c[0] for c in chunk)), kind="bundle", solver="cadical", stubs=stubs, clauses=len(chunk), cls="control",
                          tier="quick" if quick else "thorough",
                          desc="%s::{%s}: no panic, no out-of-bounds / invalid access for ANY argument bit patterns (transcendentals unconstrained)" % (N, ", ".join(c[0] for c in chunk))))
        # ---- slice functions
        cnt = nlanes if kind != "mat" else nlanes
        for (rd, wr, what) in (("from_slice", "write_to_slice", "elements"), ("from_cols_slice", "write_cols_to_slice", "entries")):
            if re.search(r"pub (?:const )?fn %s\(" % rd, src):
                K = cnt
                L = K + 4
                # len >= K: reads exactly the first K; len < K: never returns
                body = ("let buf: [%s; %d] = vk::any(); let len: usize = vk::any(); vk::assume(len >= %d && len <= %d); let v = <%s>::%s(&buf[..len]);\n"
                        "    let a = v.%s(); check!(%s, \"reads exactly the first %d %s, in order\");") % (
                    t, L, K, L, N, rd, "to_cols_array" if kind == "mat" else "to_array", " && ".join("a[%d].to_bits() == buf[%d].to_bits()" % (i, i) for i in range(K)), K, what)
                obs.append(Ob("c18_%s_%s_%s_ok" % (config, ln, rd), PROP, body, fn="%s::%s" % (N, rd), kind="lemma", solver="cadical", stubs=["sse"], cls="bits", unwind=L + 3,
                              desc="%s::%s on every slice of length %d..%d: returns the first %d %s bit-for-bit (no access beyond them is possible: the slice is exactly `len` long)" % (N, rd, K, L, K, what)))
                body = "let buf: [%s; %d] = vk::any(); let len: usize = vk::any(); vk::assume(len < %d); let _v = <%s>::%s(&buf[..len]);" % (t, L, K, N, rd)
                obs.append(Ob("c18_%s_%s_%s_short" % (config, ln, rd), PROP, body, fn="%s::%s" % (N, rd), kind="panic", panic=True, solver="cadical", stubs=["sse"], cls="control", unwind=L + 3,
                              desc="%s::%s on a slice shorter than %d never returns (documented panic)" % (N, rd, K)))
            if re.search(r"pub (?:const )?fn %s\(" % wr, src):
                K = cnt
                L = K + 4
                body = ("let v = mk::<%s>(); let old: [%s; %d] = vk::any(); let mut buf = old; let len: usize = vk::any(); vk::assume(len >= %d && len <= %d); v.%s(&mut buf[..len]);\n"
                        "    let a = v.%s(); check!(%s, \"first %d written in order\"); check!(%s, \"rest of the destination untouched\");") % (
                    N, t, L, K, L, wr, "to_cols_array" if kind == "mat" else "to_array",
                    " && ".join("buf[%d].to_bits() == a[%d].to_bits()" % (i, i) for i in range(K)), K,
                    " && ".join("buf[%d].to_bits() == old[%d].to_bits()" % (i, i) for i in range(K, L)))
                obs.append(Ob("c18_%s_%s_%s_ok" % (config, ln, wr), PROP, body, fn="%s::%s" % (N, wr), kind="lemma", solver="cadical", stubs=["sse"], cls="bits", clauses=2, unwind=L + 3,
                              desc="%s::%s on every destination of length %d..%d: writes exactly the first %d %s, every other element bit-identical (frame)" % (N, wr, K, L, K, what)))
                body = "let v = mk::<%s>(); let mut buf: [%s; %d] = vk::any(); let len: usize = vk::any(); vk::assume(len < %d); v.%s(&mut buf[..len]);" % (N, t, L, K, wr)
                obs.append(Ob("c18_%s_%s_%s_short" % (config, ln, wr), PROP, body, fn="%s::%s" % (N, wr), kind="panic", panic=True, solver="cadical", stubs=["sse"], cls="control", unwind=L + 3,
                              desc="%s::%s on a destination shorter than %d never returns (documented panic)" % (N, wr, K)))
                # bounded native stand-in: nothing is written before the panic
                body = ("let v = mk::<%s>(); let len = (vk::any::<u8>() as usize) %% %d; let mut buf = [%s::from_bits(0x5a5a5a5a as _); %d];\n"
                        "    let r = std::panic::catch_unwind(std::panic::AssertUnwindSafe(|| { v.%s(&mut buf[..len]); }));\n"
                        "    check!(r.is_err(), \"short destination panics\"); check!(buf.iter().all(|x| x.to_bits() == %s::from_bits(0x5a5a5a5a as _).to_bits()), \"nothing written before the panic\");") % (
                    N, K, t, L, wr, t)
                o = Ob("c18_%s_%s_%s_nowrite" % (config, ln, wr), PROP, body, fn="%s::%s" % (N, wr), kind="native", cls="control", clauses=2,
                       bounded="executed on the real code for every destination length 0..%d (length drawn per try, 400 tries), sentinel-filled buffer" % (K - 1),
                       desc="%s::%s with a short destination panics BEFORE writing anything (bounded native check with catch_unwind)" % (N, wr))
                o.tries = 400
                obs.append(o)
        # ---- Index / IndexMut
        if re.search(r"^impl Index<usize> for %s \{" % N, src, re.M):
            obs.append(Ob("c18_%s_%s_index_oob" % (config, ln), PROP, "let v = mk::<%s>(); let i: usize = vk::any(); vk::assume(i >= %d); let _x = v[i];" % (N, nlanes),
                          fn="%s::index" % N, kind="panic", panic=True, stubs=["sse"], cls="control", desc="%s[i] with i >= %d never returns" % (N, nlanes)))
            obs.append(Ob("c18_%s_%s_index_mut_oob" % (config, ln), PROP, "let mut v = mk::<%s>(); let i: usize = vk::any(); vk::assume(i >= %d); v[i] = vk::any();" % (N, nlanes),
                          fn="%s::index_mut" % N, kind="panic", panic=True, stubs=["sse"], cls="control", desc="%s[i] = x with i >= %d never returns" % (N, nlanes)))
            obs.append(Ob("c18_%s_%s_index_ok" % (config, ln), PROP, "let mut v = mk::<%s>(); let i: usize = vk::any(); vk::assume(i < %d); let _x = v[i]; v[i] = vk::any();" % (N, nlanes),
                          fn="%s::index" % N, kind="lemma", stubs=["sse"], cls="control", desc="%s[i] and %s[i] = x with i < %d never panic" % (N, N, nlanes)))
    if config == "sse2":
        obs.append(Ob("c18_sse2_canary_from_slice_total", PROP, "let buf: [f32; 8] = vk::any(); let len: usize = vk::any(); vk::assume(len <= 8); let _v = Vec4::from_slice(&buf[..len]);",
                      fn="Vec4::from_slice", kind="canary", expect="refute", unwind=10, desc="canary: from_slice claimed total on every slice length"))
    return obs, uncovered


def run(s):
    unc = []
    for cfg in ("sse2", "scalar"):
        obs, u = build(cfg, s.tier)
        unc += ["%s: %s" % (cfg, x) for x in u]
        s.run_config(cfg, [], obs, extra_rust=EULER)
    s.assumptions += [
        "transcendental library functions are unconstrained uninterpreted functions (over-approximation of the real ones)",
        "the AddressSanitizer clause of the property is replaced by Kani/CBMC's memory model (every dereference, slice index, union read and pointer cast is a checked obligation)",
        "'panic raised before any memory is touched' is checked by bounded native execution (catch_unwind) for the write functions; for read functions nothing is written at all",
        "operator trait impls are exercised (and panic-checked) by the contracts of C01/C03/C04; integer overflow / division panics are C13",
        "release profile: not covered (Kani compiles with overflow checks on; float code has no overflow checks)",
    ]
    return s.finish(level_note="totality of every public float function over all argument bit patterns; slice functions for every length with frame; documented index panics",
                    trusted_base=["Kani 0.68 / CBMC 6.11 memory model / CaDiCaL", "model/sse.rs"], extra_cov={"uncovered_functions": unc},
                    not_decided=["ASan-instrumented build", "release profile", "core-simd build"])
