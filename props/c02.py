"""C02 - vector geometry (dot, cross, length, normalize, project, angle).

DECIDED (bit-precisely, full domain): WHAT is computed.
 * woven contracts: dot / length_squared = sum of the single-rounded lane products in any association
   order (tree_in); cross / perp_dot lanes = difference of the two right single-rounded products;
   element_sum / element_product = sum / product of the lanes in any order; distance_squared.
 * exact lattice: the same functions return the exact integer on {-1,0,1}^n (independent check of
   lanes and signs).
 * with sqrt an uninterpreted function shared by code and spec: length == sqrt(dot(v,v)),
   distance == sqrt(distance_squared), length_recip == 1/sqrt(..), normalize in {v/len, v*(1/len)}.
 * normalize family control contract (exact predicate): try_normalize is None, normalize_or returns the
   fallback bit-for-bit, normalize_or_zero zero, normalize_and_length (X, 0) IFF !(rcp.is_finite() && rcp > 0)
   with rcp the code's own reciprocal length; otherwise the value is v * rcp.
 * lerp, midpoint, project_onto(_normalized), reject_from(_normalized), reflect, refract (incl. the
   k < 0 total-internal-reflection branch), angle_between: the documented combination of the contracted
   dot / recip / sqrt / acos_approx (same-expression structure).
ASSUMED (A3): the textbook rounding bound for these expression trees. NOT decided: accuracy of the
polynomial arccos; that the checked normalize forms never return a non-finite vector."""
import core
from core import Ob, Contract, contract_ob
from gt import FLOAT_VECS

PROP = "C02"

# method-level uninterpreted functions: in the modular lemmas the callees dot / length_squared / length /
# length_recip are replaced by ANY function of the operand bits (their own clauses are separate
# obligations), so the caller's code and the spec see the very same value
GUF = """
pub mod g_{ln} {{
    use glam::*; use crate::mk::*;
    static mut TD: MemoV<{t}> = MemoV::new(0.0);
    static mut TS: MemoV<{t}> = MemoV::new(0.0);
    static mut TL: MemoV<{t}> = MemoV::new(0.0);
    static mut TR: MemoV<{t}> = MemoV::new(0.0);
    pub fn dot(a: {N}, b: {N}) -> {t} {{ unsafe {{ TD.get(key2(a.kwords(), b.kwords()), crate::vk::any()) }} }}
    pub fn length_squared(a: {N}) -> {t} {{ unsafe {{ TS.get(key2(a.kwords(), [0; 4]), crate::vk::any()) }} }}
    pub fn length(a: {N}) -> {t} {{ unsafe {{ TL.get(key2(a.kwords(), [0; 4]), crate::vk::any()) }} }}
    pub fn length_recip(a: {N}) -> {t} {{ unsafe {{ TR.get(key2(a.kwords(), [0; 4]), crate::vk::any()) }} }}
}}
"""


def extra(config):
    return "".join(GUF.format(ln=T.lname, N=T.name, t=T.t) for T in FLOAT_VECS)


def build(config, tier):
    backend = core.CONFIGS[config]["backend"]
    contracts, obs = [], []
    for T in FLOAT_VECS:
        if config != "sse2" and not T.simd:
            continue
        N, n, t, w = T.name, T.n, T.t, T.w
        f = T.file(backend)
        ln = T.lname
        pre = "c02_%s_%s" % (config, ln)
        A = ("self", "mk::<%s>()" % N)
        B = ("rhs", "mk::<%s>()" % N)
        la = lambda v, i: "%s.to_array()[%d]" % (v, i)
        tr = "quick"  # f64 twins included in the quick tier since round 2 of the seeded changes (DVec3::reject_from was missed while they were thorough-only)
        stub0 = ["sse"]
        obs.extend(core.tree_obs("%s_dot" % pre, PROP, "let a = mk::<%s>(); let b = mk::<%s>(); let r = a.dot(b);" % (N, N), [("r", ["%s * %s" % (la("a", i), la("b", i)) for i in range(n)])], w,
                                 fn="%s::dot" % N, tier=tr, desc="%s::dot == sum of the %d single-rounded lane products (any association order), full domain" % (N, n)))
        obs.extend(core.tree_obs("%s_length_squared" % pre, PROP, "let a = mk::<%s>(); let r = a.length_squared();" % N, [("r", ["%s * %s" % (la("a", i), la("a", i)) for i in range(n)])], w,
                                 fn="%s::length_squared" % N, tier=tr, desc="%s::length_squared == sum of the squared lanes (any association order)" % N))
        obs.extend(core.tree_obs("%s_element_sum" % pre, PROP, "let a = mk::<%s>(); let r = a.element_sum();" % N, [("r", [la("a", i) for i in range(n)])], w,
                                 fn="%s::element_sum" % N, tier=tr, desc="%s::element_sum == sum of the lanes (any association order)" % N))
        # SSE2 Vec3A pads the reduction with the constant 1.0: z * 1.0 is z for every z (IEEE identity), but neither
        # back end proves two multipliers equal across that rewrite, so the leaf is stated the way it is computed
        pl = [la("a", i) for i in range(n)]
        if N == "Vec3A" and backend == "sse2":
            pl[2] = "(%s * 1.0)" % pl[2]
        obs.extend(core.tree_obs("%s_element_product" % pre, PROP, "let a = mk::<%s>(); let r = a.element_product();" % N, [("r", pl)], w, op="*",
                                 fn="%s::element_product" % N, tier=tr, desc="%s::element_product == product of the lanes (any association order%s)" % (N, "; the z lane appears as z * 1.0, which is z" if pl[2:] and "1.0" in pl[2] else "")))
        if n == 3:
            idx = [(1, 2), (2, 0), (0, 1)]
            ens = " && ".join("(__verif::leq%d(r.to_array()[%d], %s * %s - %s * %s) || __verif::leq%d(r.to_array()[%d], %s * %s - %s * %s))" % (
                w, k, la("a", i), la("b", j), la("a", j), la("b", i), w, k, la("a", i), la("b", j), la("b", i), la("a", j)) for k, (i, j) in enumerate(idx))
            obs.append(Ob("%s_cross" % pre, PROP, "let a = mk::<%s>(); let b = mk::<%s>(); let r = a.cross(b);\n    check!(%s, \"cross lanes\");" % (N, N, ens), fn="%s::cross" % N, kind="lemma", solver="cvc5",
                          stubs=["sse"], cls="structure", tier=tr, desc="%s::cross lane k == a_i*b_j - a_j*b_i (two single-rounded products, one subtraction), right lanes and signs, full domain" % N))
        if n == 2:
            obs.append(Ob("%s_perp_dot" % pre, PROP, "let a = mk::<%s>(); let b = mk::<%s>(); let r = a.perp_dot(b);\n    check!(__verif::leq%d(r, %s * %s - %s * %s), \"perp_dot\");" % (
                N, N, w, la("a", 0), la("b", 1), la("a", 1), la("b", 0)), fn="%s::perp_dot" % N, kind="lemma", solver="cvc5", stubs=["sse"], cls="structure", tier=tr, desc="%s::perp_dot == a.x*b.y - a.y*b.x" % N))
        # distance_squared
        d = ["(%s - %s)" % (la("a", i), la("b", i)) for i in range(n)]
        obs.extend(core.tree_obs("%s_distance_squared" % pre, PROP, "let a = mk::<%s>(); let b = mk::<%s>(); let r = a.distance_squared(b);" % (N, N), [("r", ["%s * %s" % (x, x) for x in d])], w,
                                 fn="%s::distance_squared" % N, tier=tr, desc="%s::distance_squared == sum of squared lane differences (any association order)" % N))
        # lattice: exact integers
        eqi = "sp::eqi%d" % w
        vc = (lambda vi: "mk::vec3a_of(sp::f32x3(%s))" % vi) if N == "Vec3A" else (lambda vi: "<%s>::from_array(sp::f%dx%d(%s))" % (N, w, n, vi))
        body = "let ai = sp::lat%d(2); let bi = sp::lat%d(2); let a = %s; let b = %s;\n    check!(%s(a.dot(b), %s) && %s(a.length_squared(), %s) && %s(a.distance_squared(b), %s) && %s(a.element_sum(), %s) && %s(a.element_product(), %s), \"exact on the lattice\");" % (
            n, n, vc("ai"), vc("bi"), eqi, " + ".join("ai[%d] * bi[%d]" % (i, i) for i in range(n)), eqi, " + ".join("ai[%d] * ai[%d]" % (i, i) for i in range(n)),
            eqi, " + ".join("(ai[%d] - bi[%d]) * (ai[%d] - bi[%d])" % (i, i, i, i) for i in range(n)), eqi, " + ".join("ai[%d]" % i for i in range(n)), eqi, " * ".join("ai[%d]" % i for i in range(n)))
        if n == 3:
            body += "\n    { let c = a.cross(b).to_array(); let e = sp::cross3(ai, bi); check!(%s(c[0], e[0]) && %s(c[1], e[1]) && %s(c[2], e[2]), \"cross exact\"); }" % (eqi, eqi, eqi)
        if n == 2:
            body += "\n    check!(%s(a.perp_dot(b), ai[0] * bi[1] - ai[1] * bi[0]), \"perp_dot exact\");" % eqi
        obs.append(Ob("%s_lattice" % pre, PROP, body, fn="%s dot/cross/..." % N, kind="lemma", solver="cadical", stubs=["sse"], cls="lattice", clauses=2, tier=tr,
                      desc="%s: dot, length_squared, distance_squared, element_sum/product%s are the exact integers on the lattice [-2,2]^%d" % (N, ", cross" if n == 3 else (", perp_dot" if n == 2 else ""), n)))
        # sqrt family with uninterpreted sqrt: one obligation per clause (same-expression, cvc5)
        sq = "crate::uf::sqrt_f%d" % w
        l4 = "__verif::leq%dx%d" % (w, n)
        fmt = dict(N=N, sq=sq, w=w, t=t, n=n, l4=l4)

        def clause(sfx, fn_, text, desc_, cls="structure", stubs=("sse", "uf_sqrt%d" % w), tier_=None):
            obs.append(Ob("%s_%s" % (pre, sfx), PROP, text.format(**fmt), fn="%s::%s" % (N, fn_), kind="lemma", solver="cvc5", stubs=list(stubs), cls=cls, tier=tier_ or tr,
                          desc="%s::%s: %s" % (N, fn_, desc_)))

        clause("length", "length", "let a = mk::<{N}>(); check!(__verif::leq{w}(a.length(), {sq}(a.length_squared())), \"length == sqrt(length_squared)\");",
               "== sqrt(length_squared) with sqrt uninterpreted (shared by code and spec)")
        intr = T.simd and backend == "sse2"   # written with intrinsics: no callee to abstract
        mst = lambda *fns: tuple(["sse", "uf_sqrt%d" % w] + [("glam::%s::%s" % (N, f_), "crate::g_%s::%s" % (ln, f_)) for f_ in fns])
        clause("length_recip", "length_recip", "let a = mk::<{N}>(); check!(__verif::leq{w}(a.length_recip(), (1.0 as {t}) / a.length()), \"length_recip == 1/length\");",
               "== 1 / length()" + ("" if intr else " (modular: length() replaced by an uninterpreted function of the operand)"), stubs=mst() if intr else mst("length"), tier_="thorough" if intr else None)
        if intr:
            clause("normalize", "normalize", "let a = mk::<{N}>(); let s = a.length(); let nz = a.normalize().to_array(); let aa = a.to_array(); let rc = (1.0 as {t}) / s;\n    check!(%s, \"normalize lanes are v/len or v*(1/len)\");"
                   % " && ".join("(__verif::leq%d(nz[%d], aa[%d] / s) || __verif::leq%d(nz[%d], aa[%d] * rc))" % (w, i_, i_, w, i_, i_) for i_ in range(n)),
                   "every lane is v/len or v*(1/len), len = length()", tier_="thorough")
        else:
            clause("normalize", "normalize", "let a = mk::<{N}>(); check!({l4}(a.normalize().to_array(), (a * a.length_recip()).to_array()), \"normalize == v * length_recip\");",
                   "== v * length_recip() (modular: length_recip() replaced by an uninterpreted function of the operand)", stubs=mst("length_recip"))
        # normalize family control contract (modular in length_recip)
        hd = "let a = mk::<{N}>(); let rcp = a.length_recip(); let ok = rcp.is_finite() && rcp > 0.0; let v = (a * rcp).to_array();\n    "
        clause("try_normalize", "try_normalize", hd + "check!(match a.try_normalize() {{ Some(r) => ok && {l4}(r.to_array(), v), None => !ok }}, \"try_normalize\");",
               "None IFF !(rcp.is_finite() && rcp > 0) for rcp = length_recip(), else Some(v * rcp) (modular in length_recip)", cls="control", stubs=mst("length_recip"))
        clause("normalize_or", "normalize_or", hd + "let fb = mk::<{N}>(); let r = a.normalize_or(fb); check!(if ok {{ {l4}(r.to_array(), v) }} else {{ {l4}(r.to_array(), fb.to_array()) }}, \"normalize_or\");",
               "the fallback IFF !(rcp.is_finite() && rcp > 0), else v * rcp (modular in length_recip)", cls="control", stubs=mst("length_recip"))
        clause("normalize_or_zero", "normalize_or_zero", hd + "let r = a.normalize_or_zero(); check!(if ok {{ {l4}(r.to_array(), v) }} else {{ {l4}(r.to_array(), <{N}>::ZERO.to_array()) }}, \"normalize_or_zero\");",
               "zero IFF !(rcp.is_finite() && rcp > 0), else v * rcp (modular in length_recip)", cls="control", stubs=mst("length_recip"))
        clause("normalize_and_length", "normalize_and_length",
               "let a = mk::<{N}>(); let len = a.length(); let rc2 = (1.0 as {t}) / len; let ok2 = rc2.is_finite() && rc2 > 0.0; let (r, l) = a.normalize_and_length();\n"
               "    check!(if ok2 {{ {l4}(r.to_array(), (a * rc2).to_array()) && __verif::leq{w}(l, len) }} else {{ {l4}(r.to_array(), <{N}>::X.to_array()) && l == 0.0 }}, \"normalize_and_length\");",
               "(X, 0) IFF !(rcp.is_finite() && rcp > 0) with rcp = 1/length(), else (v * rcp, length()) (modular in length)", cls="control", stubs=mst("length"))
        # the sqrt family once more on the integer lattice with sqrt an uninterpreted function with values in {{1,2,4}} (all
        # arithmetic exact, SAT): independent of how the code is written (intrinsics or calls)
        vcl = (lambda vi: "mk::vec3a_of(sp::f32x3(%s))" % vi) if N == "Vec3A" else (lambda vi: "<%s>::from_array(sp::f%dx%d(%s))" % (N, w, n, vi))
        obs.append(Ob("%s_sqrt_family_lat" % pre, PROP,
                      ("unsafe {{ crate::uf::SQRT{w}_MODE = crate::uf::POW2; }} let ai = sp::lat{n}(2); let bi = sp::lat{n}(2); let a = %s; let b = %s; let s = {sq}(a.length_squared()); let aa = a.to_array();\n"
                       "    check!(a.length() == s && a.length_recip() == (1.0 as {t}) / s && a.distance(b) == {sq}(a.distance_squared(b)), \"length, length_recip, distance on the lattice\");\n"
                       "    let nz = a.normalize().to_array(); check!(%s, \"normalize lanes on the lattice\");\n"
                       "    let (r, l) = a.normalize_and_length(); let rr = r.to_array(); check!(l == s && %s, \"normalize_and_length on the lattice\");") .format(**fmt)
                      % (vcl("ai"), vcl("bi"), " && ".join("nz[%d] == aa[%d] / s" % (i_, i_) for i_ in range(n)), " && ".join("rr[%d] == aa[%d] / s" % (i_, i_) for i_ in range(n))),
                      fn="%s::length/length_recip/distance/normalize/normalize_and_length" % N, kind="lemma", solver="cadical", stubs=["sse", "uf_sqrt%d" % w], cls="lattice", clauses=3, tier=tr,
                      desc="%s: length, length_recip, distance, normalize, normalize_and_length on the integer lattice [-2,2]^%d with sqrt an uninterpreted function with values in {1,2,4} (so 1/len and v/len are exact): exactly sqrt(l2), 1/sqrt(l2), v/sqrt(l2)" % (N, n)))
        # structure of the combination helpers against the contracted operations
        ab = "let a = mk::<{N}>(); let b = mk::<{N}>(); "
        clause("lerp", "lerp", ab + "let s: {t} = vk::any(); check!({l4}(a.lerp(b, s).to_array(), (a * ((1.0 as {t}) - s) + b * s).to_array()) || {l4}(a.lerp(b, s).to_array(), (a + (b - a) * s).to_array()), \"lerp is affine in s\");",
               "a*(1-s) + b*s (or a + (b-a)*s)", stubs=("sse",))
        clause("midpoint", "midpoint", ab + "check!({l4}(a.midpoint(b).to_array(), ((a + b) * (0.5 as {t})).to_array()), \"midpoint\");", "(a+b)*0.5", stubs=("sse",))
        clause("project_onto_normalized", "project_onto_normalized", ab + "check!({l4}(a.project_onto_normalized(b).to_array(), (b * a.dot(b)).to_array()), \"project_onto_normalized == b * (a.b)\");", "b * (a.b)", stubs=("sse",))
        clause("reject_from_normalized", "reject_from_normalized", ab + "check!({l4}(a.reject_from_normalized(b).to_array(), (a - b * a.dot(b)).to_array()), \"reject_from_normalized\");", "a - b * (a.b)", stubs=("sse",))
        clause("project_onto", "project_onto", ab + "let k = b.dot(b).recip(); let p = a.project_onto(b).to_array(); check!({l4}(p, (b * a.dot(b) * k).to_array()) || {l4}(p, (b * (a.dot(b) * k)).to_array()) || {l4}(p, (b * (a.dot(b) / b.dot(b))).to_array()), \"project_onto == b * (a.b)/(b.b)\");",
               "b * (a.b) / (b.b)", stubs=("sse",))
        clause("reject_from", "reject_from", ab + "check!({l4}(a.reject_from(b).to_array(), (a - a.project_onto(b)).to_array()), \"reject_from == a - project_onto\");", "a - project_onto(b)", stubs=("sse",))
        clause("reflect", "reflect", ab + "let r = a.reflect(b).to_array(); check!({l4}(r, (a - (2.0 as {t}) * a.dot(b) * b).to_array()) || {l4}(r, (a - b * ((2.0 as {t}) * a.dot(b))).to_array()), \"reflect == a - 2 (a.n) n\");",
               "a - 2 (a.n) n", stubs=("sse",))
        if n in (2, 3):
            body = ("let a = mk::<{N}>(); let nn = mk::<{N}>(); let eta: {t} = vk::any(); let ndi = nn.dot(a); let k = (1.0 as {t}) - eta * eta * ((1.0 as {t}) - ndi * ndi); let r = a.refract(nn, eta);\n"
                    "    check!(if k >= 0.0 {{ {l4}(r.to_array(), (eta * a - (eta * ndi + {sq}(k)) * nn).to_array()) }} else if k < 0.0 {{ __verif::leq{w}x{n}(r.to_array(), <{N}>::ZERO.to_array()) }} else {{ __verif::leq{w}x{n}(r.to_array(), <{N}>::ZERO.to_array()) }}, \"refract: Snell form when k >= 0, zero on total internal reflection\");").format(N=N, t=t, l4=l4, sq=sq, w=w, n=n)
            obs.append(Ob("%s_refract" % pre, PROP, body, fn="%s::refract" % N, kind="lemma", solver="cvc5", stubs=list(mst("dot")), cls="control", tier="thorough",
                          desc="%s::refract: k = 1 - eta^2 (1 - (n.i)^2); k >= 0 => eta*i - (eta*(n.i) + sqrt(k))*n, otherwise exactly zero (modular in dot)" % N))
            sgn = " * a.perp_dot(b).signum()" if n == 2 else ""
            body = ("let a = mk::<{N}>(); let b = mk::<{N}>(); let r = a.angle_between(b); let arg = a.dot(b) / {sq}(a.length_squared() * b.length_squared());\n"
                    "    check!(__verif::leq{w}(r, crate::uf::acos_f{w}(arg){sgn}), \"angle_between == acos_approx(dot / sqrt(l1*l2)){sgn}\");").format(N=N, sq=sq, w=w, sgn=sgn)
            obs.append(Ob("%s_angle_between" % pre, PROP, body, fn="%s::angle_between" % N, kind="lemma", solver="cvc5", stubs=list(mst("dot", "length_squared")) + ["uf_acos_approx%d" % w], cls="structure", tier="thorough",
                          desc="%s::angle_between == acos_approx(a.b / sqrt(|a|^2 |b|^2))%s; the arccos polynomial itself is uninterpreted (its accuracy is not decided); modular in dot / length_squared" % (N, " times the sign of perp_dot (Vec2: signed angle_to)" if n == 2 else "")))
            # the same two clauses on the integer lattice (all arithmetic exact, sqrt / acos uninterpreted over ALL
            # values): SAT-decidable in seconds; the full-domain forms above are thorough-tier (cvc5, slow)
            lat = "unsafe {{ crate::uf::SQRT%d_MODE = crate::uf::POW2; crate::uf::ACOS%d_MODE = crate::uf::LAT; }} let ai = sp::lat%d(2); let bi = sp::lat%d(2); let a = %s; let b = %s; " % (w, w, n, n, vc("ai"), vc("bi"))
            body = (lat + "let nn = b; let e: i8 = vk::any(); vk::assume(e >= -2 && e <= 2); let eta = e as {t}; let ndi = nn.dot(a); let k = (1.0 as {t}) - eta * eta * ((1.0 as {t}) - ndi * ndi); let r = a.refract(nn, eta);\n"
                    "    check!(if k >= 0.0 {{ {l4}(r.to_array(), (eta * a - (eta * ndi + {sq}(k)) * nn).to_array()) }} else {{ {l4}(r.to_array(), <{N}>::ZERO.to_array()) }}, \"refract on the lattice\");").format(N=N, t=t, l4=l4, sq=sq)
            obs.append(Ob("%s_refract_lat" % pre, PROP, body, fn="%s::refract" % N, kind="lemma", solver="cadical", stubs=["sse", "uf_sqrt%d" % w], cls="lattice", tier=tr,
                          desc="%s::refract on the integer lattice [-2,2] (eta too): Snell form with the right operands when k >= 0, exactly zero otherwise; sqrt an uninterpreted function with values in {1,2,4}" % N))
            body = (lat + "let r = a.angle_between(b); let arg = a.dot(b) / {sq}(a.length_squared() * b.length_squared());\n"
                    "    check!(__verif::leq{w}(r, crate::uf::acos_f{w}(arg){sgn}), \"angle_between on the lattice\");").format(sq=sq, w=w, sgn=sgn)
            obs.append(Ob("%s_angle_between_lat" % pre, PROP, body, fn="%s::angle_between" % N, kind="lemma", solver="cadical", stubs=["sse", "uf_sqrt%d" % w, "uf_acos_approx%d" % w], cls="lattice", tier=tr,
                          desc="%s::angle_between on the integer lattice [-2,2]: acos_approx(a.b / sqrt(|a|^2 |b|^2))%s with sqrt / the arccos polynomial uninterpreted functions with values in {1,2,4} / {-1,0,1}" % (N, " * sign(perp_dot)" if n == 2 else "")))
    if config == "sse2":
        obs.append(Ob("c02_sse2_canary_cross_lane", PROP,
                      'let a = mk::<Vec3A>(); let b = mk::<Vec3A>(); let r = a.cross(b).to_array(); let (x, y) = (a.to_array(), b.to_array()); check!(__verif::leq32(r[0], x[1] * y[1] - x[2] * y[1]), "cross.x with b.y for b.z");',
                      fn="Vec3A::cross", kind="canary", expect="refute", solver="cvc5", desc="canary: cross.x specified with the wrong lane of b"))
        obs.append(Ob("c02_sse2_canary_try_normalize_zero", PROP,
                      'let a = mk::<Vec3>(); check!(a.try_normalize().is_some(), "try_normalize never None");', fn="Vec3::try_normalize", kind="canary", expect="refute",
                      stubs=["sse", "uf_sqrt32"], desc="canary: try_normalize claimed total"))
    return contracts, obs


def run(s):
    for cfg in ("sse2", "scalar"):
        contracts, obs = build(cfg, s.tier)
        s.run_config(cfg, contracts, obs, extra_rust=extra(cfg))
    s.assumptions += [
        "modular lemmas: where a clause is marked 'modular in f', the callee f (dot, length_squared, length, length_recip) is replaced by an arbitrary function of the operand bits in BOTH code and spec; f's own clause is a separate obligation of this check",
        "A3: the result is within a few eps * sum of term magnitudes of the real value of the verified expression tree (standard rounding analysis, not machine-checked)",
        "A5: sqrt and acos_approx are uninterpreted functions shared by code and spec; std_math forwards to the std primitives (token-level)",
        "angle_between accuracy (polynomial arccos), 'checked forms never return a non-finite vector' and length == 1 within a few eps after normalize are NOT decided",
    ]
    return s.finish(level_note="what each geometry function computes, bit-precisely over the full domain (tree_in), exact on the lattice, and the exact control predicate of the normalize family",
                    trusted_base=["Kani 0.68 / CBMC 6.11 / cvc5 for same-expression FD obligations, CaDiCaL for the lattice", "model/sse.rs"],
                    not_decided=["eps-bounds for arbitrary real inputs", "accuracy of acos_approx", "normalize result has length 1 within a few eps; checked forms never non-finite"])
