"""C02 - vector geometry (dot, cross, length, normalize, project, angle).

DECIDED (bit-precisely, full domain): WHAT is computed.
 * woven contracts: dot / length_squared = sum of the single-rounded lane products in any association
   order (tree_in); cross / perp_dot lanes = difference of the two right single-rounded products;
   element_sum / element_product = sum / product of the lanes in any order; distance_squared.
 * exact lattice: the same functions return the exact integer on {-1,0,1}^n (independent check of
   lanes and signs).
 * with sqrt an uninterpreted function shared by code and spec: length == sqrt(dot(v,v)),
   distance == sqrt(distance_squared), length_recip == 1/sqrt(..), normalize in {v/len, v*(1/len)}.
 * normalize family control contract (exact predicate): try_normalize is None, normalize_or returns the
   fallback bit-for-bit, normalize_or_zero zero, normalize_and_length (X, 0) IFF !(rcp.is_finite() && rcp > 0)
   with rcp the code's own reciprocal length; otherwise the value is v * rcp.
 * lerp, midpoint, project_onto(_normalized), reject_from(_normalized), reflect, refract (incl. the
   k < 0 total-internal-reflection branch), angle_between: the documented combination of the contracted
   dot / recip / sqrt / acos_approx (same-expression structure).
ASSUMED (A3): the textbook rounding bound for these expression trees. NOT decided: accuracy of the
polynomial arccos; that the checked normalize forms never return a non-finite vector."""
import core
from core import Ob, Contract, contract_ob
from gt import FLOAT_VECS

PROP = "C02"


def build(config, tier):
    backend = core.CONFIGS[config]["backend"]
    contracts, obs = [], []
    for T in FLOAT_VECS:
        if config != "sse2" and not T.simd:
            continue
        N, n, t, w = T.name, T.n, T.t, T.w
        f = T.file(backend)
        ln = T.lname
        pre = "c02_%s_%s" % (config, ln)
        A = ("self", "mk::<%s>()" % N)
        B = ("rhs", "mk::<%s>()" % N)
        la = lambda v, i: "%s.to_array()[%d]" % (v, i)
        tr = "quick" if (T.simd or t == "f32") else "thorough"
        stub0 = ["sse"]
        obs.extend(core.tree_obs("%s_dot" % pre, PROP, "let a = mk::<%s>(); let b = mk::<%s>(); let r = a.dot(b);" % (N, N), [("r", ["%s * %s" % (la("a", i), la("b", i)) for i in range(n)])], w,
                                 fn="%s::dot" % N, tier=tr, desc="%s::dot == sum of the %d single-rounded lane products (any association order), full domain" % (N, n)))
        obs.extend(core.tree_obs("%s_length_squared" % pre, PROP, "let a = mk::<%s>(); let r = a.length_squared();" % N, [("r", ["%s * %s" % (la("a", i), la("a", i)) for i in range(n)])], w,
                                 fn="%s::length_squared" % N, tier=tr, desc="%s::length_squared == sum of the squared lanes (any association order)" % N))
        obs.extend(core.tree_obs("%s_element_sum" % pre, PROP, "let a = mk::<%s>(); let r = a.element_sum();" % N, [("r", [la("a", i) for i in range(n)])], w,
                                 fn="%s::element_sum" % N, tier=tr, desc="%s::element_sum == sum of the lanes (any association order)" % N))
        obs.extend(core.tree_obs("%s_element_product" % pre, PROP, "let a = mk::<%s>(); let r = a.element_product();" % N, [("r", [la("a", i) for i in range(n)])], w, op="*",
                                 fn="%s::element_product" % N, tier=tr, desc="%s::element_product == product of the lanes (any association order)" % N))
        if n == 3:
            idx = [(1, 2), (2, 0), (0, 1)]
            ens = " && ".join("(__verif::leq%d(r.to_array()[%d], %s * %s - %s * %s) || __verif::leq%d(r.to_array()[%d], %s * %s - %s * %s))" % (
                w, k, la("a", i), la("b", j), la("a", j), la("b", i), w, k, la("a", i), la("b", j), la("b", i), la("a", j)) for k, (i, j) in enumerate(idx))
            obs.append(Ob("%s_cross" % pre, PROP, "let a = mk::<%s>(); let b = mk::<%s>(); let r = a.cross(b);\n    check!(%s, \"cross lanes\");" % (N, N, ens), fn="%s::cross" % N, kind="lemma", solver="cvc5",
                          stubs=["sse"], cls="structure", tier=tr, desc="%s::cross lane k == a_i*b_j - a_j*b_i (two single-rounded products, one subtraction), right lanes and signs, full domain" % N))
        if n == 2:
            obs.append(Ob("%s_perp_dot" % pre, PROP, "let a = mk::<%s>(); let b = mk::<%s>(); let r = a.perp_dot(b);\n    check!(__verif::leq%d(r, %s * %s - %s * %s), \"perp_dot\");" % (
                N, N, w, la("a", 0), la("b", 1), la("a", 1), la("b", 0)), fn="%s::perp_dot" % N, kind="lemma", solver="cvc5", stubs=["sse"], cls="structure", tier=tr, desc="%s::perp_dot == a.x*b.y - a.y*b.x" % N))
        # distance_squared
        d = ["(%s - %s)" % (la("a", i), la("b", i)) for i in range(n)]
        obs.extend(core.tree_obs("%s_distance_squared" % pre, PROP, "let a = mk::<%s>(); let b = mk::<%s>(); let r = a.distance_squared(b);" % (N, N), [("r", ["%s * %s" % (x, x) for x in d])], w,
                                 fn="%s::distance_squared" % N, tier=tr, desc="%s::distance_squared == sum of squared lane differences (any association order)" % N))
        # lattice: exact integers
        eqi = "sp::eqi%d" % w
        vc = (lambda vi: "mk::vec3a_of(sp::f32x3(%s))" % vi) if N == "Vec3A" else (lambda vi: "<%s>::from_array(sp::f%dx%d(%s))" % (N, w, n, vi))
        body = "let ai = sp::lat%d(2); let bi = sp::lat%d(2); let a = %s; let b = %s;\n    check!(%s(a.dot(b), %s) && %s(a.length_squared(), %s) && %s(a.distance_squared(b), %s) && %s(a.element_sum(), %s) && %s(a.element_product(), %s), \"exact on the lattice\");" % (
            n, n, vc("ai"), vc("bi"), eqi, " + ".join("ai[%d] * bi[%d]" % (i, i) for i in range(n)), eqi, " + ".join("ai[%d] * ai[%d]" % (i, i) for i in range(n)),
            eqi, " + ".join("(ai[%d] - bi[%d]) * (ai[%d] - bi[%d])" % (i, i, i, i) for i in range(n)), eqi, " + ".join("ai[%d]" % i for i in range(n)), eqi, " * ".join("ai[%d]" % i for i in range(n)))
        if n == 3:
            body += "\n    { let c = a.cross(b).to_array(); let e = sp::cross3(ai, bi); check!(%s(c[0], e[0]) && %s(c[1], e[1]) && %s(c[2], e[2]), \"cross exact\"); }" % (eqi, eqi, eqi)
        if n == 2:
            body += "\n    check!(%s(a.perp_dot(b), ai[0] * bi[1] - ai[1] * bi[0]), \"perp_dot exact\");" % eqi
        obs.append(Ob("%s_lattice" % pre, PROP, body, fn="%s dot/cross/..." % N, kind="lemma", solver="cadical", stubs=["sse"], cls="lattice", clauses=2, tier=tr,
                      desc="%s: dot, length_squared, distance_squared, element_sum/product%s are the exact integers on the lattice [-2,2]^%d" % (N, ", cross" if n == 3 else (", perp_dot" if n == 2 else ""), n)))
        # sqrt family with uninterpreted sqrt
        sq = "crate::uf::sqrt_f%d" % w
        body = ("let a = mk::<{N}>(); let b = mk::<{N}>(); let l2 = a.length_squared(); let s = {sq}(l2);\n"
                "    check!(__verif::leq{w}(a.length(), s), \"length == sqrt(length_squared)\");\n"
                "    check!(__verif::leq{w}(a.length_recip(), (1.0 as {t}) / s), \"length_recip == 1/sqrt(..)\");\n"
                "    check!(__verif::leq{w}(a.distance(b), {sq}(a.distance_squared(b))), \"distance == sqrt(distance_squared)\");\n"
                "    let nz = a.normalize().to_array(); let aa = a.to_array(); let rc = (1.0 as {t}) / s;\n"
                "    check!({lanes}, \"normalize lanes are v/len or v*(1/len)\");").format(
            N=N, sq=sq, w=w, t=t, lanes=" && ".join("(__verif::leq%d(nz[%d], aa[%d] / s) || __verif::leq%d(nz[%d], aa[%d] * rc))" % (w, i, i, w, i, i) for i in range(n)))
        obs.append(Ob("%s_sqrt_family" % pre, PROP, body, fn="%s::length/length_recip/distance/normalize" % N, kind="lemma", solver="cvc5", stubs=["sse", "uf_sqrt%d" % w], cls="structure", clauses=4, tier=tr,
                      desc="%s: length, length_recip, distance, normalize in terms of an uninterpreted sqrt shared by code and spec" % N))
        # normalize family control contract
        body = ("let a = mk::<{N}>(); let fb = mk::<{N}>(); let rcp = a.length_recip(); let ok = rcp.is_finite() && rcp > 0.0; let v = (a * rcp).to_array();\n"
                "    check!(match a.try_normalize() {{ Some(r) => ok && __verif::leq{w}x{n}(r.to_array(), v), None => !ok }}, \"try_normalize\");\n"
                "    {{ let r = a.normalize_or(fb); check!(if ok {{ __verif::leq{w}x{n}(r.to_array(), v) }} else {{ __verif::leq{w}x{n}(r.to_array(), fb.to_array()) }}, \"normalize_or\"); }}\n"
                "    {{ let r = a.normalize_or_zero(); check!(if ok {{ __verif::leq{w}x{n}(r.to_array(), v) }} else {{ __verif::leq{w}x{n}(r.to_array(), <{N}>::ZERO.to_array()) }}, \"normalize_or_zero\"); }}\n"
                "    {{ let len = a.length(); let rc2 = (1.0 as {t}) / len; let ok2 = rc2.is_finite() && rc2 > 0.0; let (r, l) = a.normalize_and_length();\n"
                "      check!(if ok2 {{ __verif::leq{w}x{n}(r.to_array(), (a * rc2).to_array()) && __verif::leq{w}(l, len) }} else {{ __verif::leq{w}x{n}(r.to_array(), <{N}>::X.to_array()) && l == 0.0 }}, \"normalize_and_length\"); }}").format(N=N, w=w, n=n, t=t)
        obs.append(Ob("%s_normalize_control" % pre, PROP, body, fn="%s::try_normalize/normalize_or/normalize_or_zero/normalize_and_length" % N, kind="lemma", solver="cvc5",
                      stubs=["sse", "uf_sqrt%d" % w], cls="control", clauses=4, tier=tr,
                      desc="%s normalize family: the documented fallback is returned IFF !(rcp.is_finite() && rcp > 0) for the code's own reciprocal length, else v * rcp" % N))
        # structure of the combination helpers against the contracted operations
        l4 = "__verif::leq%dx%d" % (w, n)
        body = ("let a = mk::<{N}>(); let b = mk::<{N}>(); let s: {t} = vk::any();\n"
                "    check!({l4}(a.lerp(b, s).to_array(), (a * ((1.0 as {t}) - s) + b * s).to_array()) || {l4}(a.lerp(b, s).to_array(), (a + (b - a) * s).to_array()), \"lerp is affine in s\");\n"
                "    check!({l4}(a.midpoint(b).to_array(), ((a + b) * (0.5 as {t})).to_array()), \"midpoint\");\n"
                "    check!({l4}(a.project_onto_normalized(b).to_array(), (b * a.dot(b)).to_array()), \"project_onto_normalized == b * (a.b)\");\n"
                "    check!({l4}(a.reject_from_normalized(b).to_array(), (a - b * a.dot(b)).to_array()), \"reject_from_normalized\");\n"
                "    {{ let k = b.dot(b).recip(); let p = a.project_onto(b).to_array(); check!({l4}(p, (b * a.dot(b) * k).to_array()) || {l4}(p, (b * (a.dot(b) * k)).to_array()) || {l4}(p, (b * (a.dot(b) / b.dot(b))).to_array()), \"project_onto == b * (a.b)/(b.b)\");\n"
                "      check!({l4}(a.reject_from(b).to_array(), (a - a.project_onto(b)).to_array()), \"reject_from == a - project_onto\"); }}\n"
                "    {{ let r = a.reflect(b).to_array(); check!({l4}(r, (a - (2.0 as {t}) * a.dot(b) * b).to_array()) || {l4}(r, (a - b * ((2.0 as {t}) * a.dot(b))).to_array()), \"reflect == a - 2 (a.n) n\"); }}").format(N=N, t=t, l4=l4)
        obs.append(Ob("%s_combinators" % pre, PROP, body, fn="%s::lerp/midpoint/project_onto/reject_from/reflect" % N, kind="lemma", solver="cvc5", stubs=["sse"], cls="structure", clauses=7, tier=tr,
                      desc="%s: lerp, midpoint, project_onto(_normalized), reject_from(_normalized), reflect are the documented combinations of the contracted dot/recip (same-expression structure)" % N))
        if n in (2, 3):
            body = ("let a = mk::<{N}>(); let nn = mk::<{N}>(); let eta: {t} = vk::any(); let ndi = nn.dot(a); let k = (1.0 as {t}) - eta * eta * ((1.0 as {t}) - ndi * ndi); let r = a.refract(nn, eta);\n"
                    "    check!(if k >= 0.0 {{ {l4}(r.to_array(), (eta * a - (eta * ndi + {sq}(k)) * nn).to_array()) }} else if k < 0.0 {{ __verif::leq{w}x{n}(r.to_array(), <{N}>::ZERO.to_array()) }} else {{ __verif::leq{w}x{n}(r.to_array(), <{N}>::ZERO.to_array()) }}, \"refract: Snell form when k >= 0, zero on total internal reflection\");").format(N=N, t=t, l4=l4, sq=sq, w=w, n=n)
            obs.append(Ob("%s_refract" % pre, PROP, body, fn="%s::refract" % N, kind="lemma", solver="cvc5", stubs=["sse", "uf_sqrt%d" % w], cls="control", tier=tr,
                          desc="%s::refract: k = 1 - eta^2 (1 - (n.i)^2); k >= 0 => eta*i - (eta*(n.i) + sqrt(k))*n, otherwise exactly zero" % N))
            body = ("let a = mk::<{N}>(); let b = mk::<{N}>(); let r = a.angle_between(b); let arg = a.dot(b) / {sq}(a.length_squared() * b.length_squared());\n"
                    "    check!(__verif::leq{w}(r, crate::uf::acos_f{w}(arg)), \"angle_between == acos_approx(dot / sqrt(l1*l2))\");").format(N=N, sq=sq, w=w)
            obs.append(Ob("%s_angle_between" % pre, PROP, body, fn="%s::angle_between" % N, kind="lemma", solver="cvc5", stubs=["sse", "uf_sqrt%d" % w, "uf_acos_approx%d" % w], cls="structure", tier=tr,
                          desc="%s::angle_between == acos_approx(a.b / sqrt(|a|^2 |b|^2)); the arccos polynomial itself is uninterpreted (its accuracy is not decided)" % N))
    if config == "sse2":
        obs.append(Ob("c02_sse2_canary_cross_lane", PROP,
                      'let a = mk::<Vec3A>(); let b = mk::<Vec3A>(); let r = a.cross(b).to_array(); let (x, y) = (a.to_array(), b.to_array()); check!(__verif::leq32(r[0], x[1] * y[1] - x[2] * y[1]), "cross.x with b.y for b.z");',
                      fn="Vec3A::cross", kind="canary", expect="refute", solver="cvc5", desc="canary: cross.x specified with the wrong lane of b"))
        obs.append(Ob("c02_sse2_canary_try_normalize_zero", PROP,
                      'let a = mk::<Vec3>(); check!(a.try_normalize().is_some(), "try_normalize never None");', fn="Vec3::try_normalize", kind="canary", expect="refute",
                      stubs=["sse", "uf_sqrt32"], desc="canary: try_normalize claimed total"))
    return contracts, obs


def run(s):
    for cfg in ("sse2", "scalar"):
        contracts, obs = build(cfg, s.tier)
        s.run_config(cfg, contracts, obs)
    s.assumptions += [
        "A3: the result is within a few eps * sum of term magnitudes of the real value of the verified expression tree (standard rounding analysis, not machine-checked)",
        "A5: sqrt and acos_approx are uninterpreted functions shared by code and spec; std_math forwards to the std primitives (token-level)",
        "angle_between accuracy (polynomial arccos), 'checked forms never return a non-finite vector' and length == 1 within a few eps after normalize are NOT decided",
    ]
    return s.finish(level_note="what each geometry function computes, bit-precisely over the full domain (tree_in), exact on the lattice, and the exact control predicate of the normalize family",
                    trusted_base=["Kani 0.68 / CBMC 6.11 / cvc5 for same-expression FD obligations, CaDiCaL for the lattice", "model/sse.rs"],
                    not_decided=["eps-bounds for arbitrary real inputs", "accuracy of acos_approx", "normalize result has length 1 within a few eps; checked forms never non-finite"])
