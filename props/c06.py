"""C06 - column-vector, column-major conventions hold across every accessor and product.

Abstract view of a matrix/affine value: the flat column-major array of entry BITS
(`to_cols_array`).  Every constructor / accessor pair found in the current source gets a
bit-for-bit clause over all entry bit patterns (NaN payloads, -0; Mat3A/Affine3A with symbolic
hidden lanes): from_cols*, from_cols_array(_2d), from_cols_slice / write_cols_to_slice, AsRef,
col(c)[r] == row(r)[c] == entry(r, c), the axis fields, from_diagonal, transpose, the minor
constructors for EVERY (i, j) (out of range => always panics).  Product laws:
M*v == sum v[c]*col(c) and the affine `transform_point = linear*p + translation`,
`transform_vector` ignores translation are stated against glam's own contracted vector operations
(same expression, cvc5); (A*B)*v == A*(B*v) on the exact lattice is a lemma of C03."""
import os, re
import core
from core import Ob
import weave
from gt import MATS, AFFINES, MAT_BY_NAME, BY_NAME

PROP = "C06"
LET = "xyzw"
AXES = ["x_axis", "y_axis", "z_axis", "w_axis"]


def b(e):
    return "(%s).to_bits()" % e


def build(config, tier):
    backend = core.CONFIGS[config]["backend"]
    obs, uncovered = [], []
    for M in MATS + AFFINES:
        if config != "sse2" and not (M.simd or M.name in ("Affine2", "Affine3A")):
            continue
        N, C, R, t, NN = M.name, M.C, M.R, M.t, M.N
        src = open(os.path.join(weave.REPO, M.file(backend))).read()
        has = lambda pat: re.search(pat, src, re.M) is not None
        ln = M.lname
        e = lambda v, r, c: "%s[%d]" % (v, c * R + r)   # entry of flat array
        cl = []
        pre = "let a: [%s; %d] = vk::any(); let m = <%s>::from_cols_array(&a); let f = m.to_cols_array();" % (t, NN, N)
        alleq = lambda xs: " && ".join("%s == %s" % (b(x), b(y)) for (x, y) in xs)
        cl.append(("from_cols_array -> to_cols_array round trip", alleq([("f[%d]" % i, "a[%d]" % i) for i in range(NN)])))
        cols = ", ".join("<%s>::from_array([%s])" % (M.col, ", ".join(e("a", r, c) for r in range(R))) for c in range(C))
        cl.append(("from_cols lists column 0 first", "{ let g = <%s>::from_cols(%s).to_cols_array(); %s }" % (N, cols, alleq([("g[%d]" % i, "a[%d]" % i) for i in range(NN)]))))
        if has(r"pub (const )?fn to_cols_array_2d\("):
            cl.append(("to_cols_array_2d[c][r]", "{ let g = m.to_cols_array_2d(); %s }" % alleq([("g[%d][%d]" % (c, r), e("a", r, c)) for c in range(C) for r in range(R)])))
        if has(r"pub (const )?fn from_cols_array_2d\("):
            arr2 = "[%s]" % ", ".join("[%s]" % ", ".join(e("a", r, c) for r in range(R)) for c in range(C))
            cl.append(("from_cols_array_2d", "{ let g = <%s>::from_cols_array_2d(&%s).to_cols_array(); %s }" % (N, arr2, alleq([("g[%d]" % i, "a[%d]" % i) for i in range(NN)]))))
        if has(r"pub (const )?fn from_cols_slice\("):
            cl.append(("from_cols_slice", "{ let g = <%s>::from_cols_slice(&a).to_cols_array(); %s }" % (N, alleq([("g[%d]" % i, "a[%d]" % i) for i in range(NN)]))))
        if has(r"pub (?:const )?fn write_cols_to_slice\("):
            cl.append(("write_cols_to_slice", "{ let mut g = [0 as %s; %d]; m.write_cols_to_slice(&mut g); %s }" % (t, NN, alleq([("g[%d]" % i, "a[%d]" % i) for i in range(NN)]))))
        if has(r"^impl AsRef<\[%s; %d\]> for %s \{" % (t, NN, N)):
            cl.append(("AsRef", "{ let g: &[%s; %d] = m.as_ref(); %s }" % (t, NN, alleq([("g[%d]" % i, "a[%d]" % i) for i in range(NN)]))))
        if has(r"pub (?:const )?fn col\(&self, index: usize\)"):
            cl.append(("col(c)[r]", alleq([("m.col(%d).to_array()[%d]" % (c, r), e("a", r, c)) for c in range(C) for r in range(R)])))
            cl.append(("row(r)[c]", alleq([("m.row(%d).to_array()[%d]" % (r, c), e("a", r, c)) for c in range(C) for r in range(R)])))
        if not M.affine:
            cl.append(("axis fields", alleq([("m.%s.to_array()[%d]" % (AXES[c], r), e("a", r, c)) for c in range(C) for r in range(R)])))
        else:
            lin = "matrix2" if R == 2 else "matrix3"
            cl.append(("linear part in the leading columns, translation last",
                       alleq([("m.%s.to_cols_array()[%d]" % (lin, c * R + r), e("a", r, c)) for c in range(C - 1) for r in range(R)]
                             + [("m.translation.to_array()[%d]" % r, e("a", r, C - 1)) for r in range(R)])))
        dm = re.search(r"pub (?:const )?fn from_diagonal\(\s*diagonal: (\w+)", src)
        if dm:
            cl.append(("from_diagonal", "{ let d = <%s>::from_array([%s]); let g = <%s>::from_diagonal(d).to_cols_array(); %s }" % (
                dm.group(1), ", ".join("a[%d]" % i for i in range(R)), N,
                alleq([("g[%d]" % (c * R + r), ("a[%d]" % r) if r == c else ("(0.0 as %s)" % t)) for c in range(C) for r in range(R)]))))
        if has(r"pub (?:const )?fn transpose\(&self\)"):
            cl.append(("transpose swaps (r, c) and (c, r) exactly", "{ let g = m.transpose().to_cols_array(); %s }" % alleq([(e("g", c, r), e("a", r, c)) for c in range(C) for r in range(R)])))
        name = "c06_%s_%s_layout" % (config, ln)
        agg = pre + "\n    let ok = " + "\n        && ".join("(%s)" % c_[1] for c_ in cl) + ';\n    check!(ok, "bundle of %d layout clauses");' % len(cl)
        spl = pre + "\n    " + "\n    ".join('check!(%s, "%s: %s");' % (c_[1], N, c_[0]) for c_ in cl)
        desc = "%s column-major layout, bit-for-bit: %s" % (N, "; ".join(c_[0] for c_ in cl))
        obs.append(Ob(name, PROP, agg, fn="%s accessors" % N, kind="bundle", solver="cadical", stubs=["sse"], clauses=len(cl), split=name + "__split", cls="bits", desc=desc[:700]))
        obs.append(Ob(name + "__split", PROP, spl, fn="%s accessors" % N, kind="bundle-split", solver="cadical", stubs=["sse"], desc=desc[:300]))
        # index out of range
        if has(r"pub (?:const )?fn col\(&self, index: usize\)"):
            for fnm, call in (("col", "let _r = m.col(i);"), ("row", "let _r = m.row(i);"), ("col_mut", "let mut m = m; let _r = m.col_mut(i);")):
                obs.append(Ob("c06_%s_%s_%s_oob" % (config, ln, fnm), PROP, "let m = mk::<%s>(); let i: usize = vk::any(); vk::assume(i >= %d); %s" % (N, C if fnm != "row" else R, call),
                              fn="%s::%s" % (N, fnm), kind="panic", panic=True, stubs=["sse"], cls="control", desc="%s::%s(i) with i out of range never returns" % (N, fnm)))
            # col_mut writes exactly one column
            body = "let a: [%s; %d] = vk::any(); let mut m = <%s>::from_cols_array(&a); let v = mk::<%s>(); let c: usize = vk::any(); vk::assume(c < %d); *m.col_mut(c) = v; let g = m.to_cols_array(); let vw = v.to_array();\n    check!(%s, \"col_mut frame\");" % (
                t, NN, N, M.col, C, " && ".join("%s == (if c == %d { %s } else { %s })" % (b(e("g", r, cc)), cc, b("vw[%d]" % r), b(e("a", r, cc))) for cc in range(C) for r in range(R)))
            obs.append(Ob("c06_%s_%s_col_mut" % (config, ln), PROP, body, fn="%s::col_mut" % N, kind="lemma", stubs=["sse"], cls="bits", desc="*m.col_mut(c) = v replaces exactly column c (full-view postcondition)"))
        # minors
        for mm in re.finditer(r"pub (?:const )?fn (from_mat\da?_minor)\(m: (\w+), i: usize, j: usize\) -> Self", src):
            fnm, S = mm.group(1), mm.group(2)
            SM = MAT_BY_NAME[S]
            pre2 = "let s = mk::<%s>(); let sa = s.to_cols_array(); let i: usize = vk::any(); let j: usize = vk::any();" % S
            conds = []
            for c in range(C):
                for r in range(R):
                    # result entry (r, c) = source entry (r + (r >= j), c + (c >= i))
                    conds.append("%s == %s" % (b("g[%d]" % (c * R + r)), b("sa[(%d + (%d >= i) as usize) * %d + (%d + (%d >= j) as usize)]" % (c, c, SM.R, r, r))))
            body = pre2 + " vk::assume(i < %d && j < %d); let g = <%s>::%s(s, i, j).to_cols_array();\n    check!(%s, \"minor drops column i and row j\");" % (SM.C, SM.R, N, fnm, " && ".join(conds))
            obs.append(Ob("c06_%s_%s_%s" % (config, ln, fnm), PROP, body, fn="%s::%s" % (N, fnm), kind="lemma", stubs=["sse"], cls="bits",
                          desc="%s::%s(m, i, j) drops exactly column i and row j for every (i, j)" % (N, fnm)))
            obs.append(Ob("c06_%s_%s_%s_oob" % (config, ln, fnm), PROP, pre2 + " vk::assume(i >= %d || j >= %d); let _g = <%s>::%s(s, i, j);" % (SM.C, SM.R, N, fnm),
                          fn="%s::%s" % (N, fnm), kind="panic", panic=True, stubs=["sse"], cls="control", desc="%s::%s with i or j out of range never returns" % (N, fnm)))
        # product conventions (same-expression obligations against glam's own vector ops, cvc5)
        leq = "__verif::leq%dx%d" % (M.w, R)
        if not M.affine:
            pass  # M*v == sum_c v[c]*col(c): tree_in obligation of C03 (mul_vec)
        else:
            V = M.col
            forms = [("transform_point2", "transform_vector2", V)] if R == 2 else ([("transform_point3a", "transform_vector3a", "Vec3A"), ("transform_point3", "transform_vector3", "Vec3")] if N == "Affine3A" else [("transform_point3", "transform_vector3", V)])
            lin = "matrix2" if R == 2 else "matrix3"
            for (P, Vv, VT_) in forms:
                conv = "" if VT_ == V else "let pc = <%s>::from(p);" % V
                pe = "p" if VT_ == V else "pc"
                back = lambda e: e if VT_ == V else "<%s>::from(%s)" % (VT_, e)
                body = ("let m = mk::<%s>(); let p = mk::<%s>(); %s let r = m.%s(p); let q = m.%s(p);\n"
                        "    check!(%s(r.to_array(), %s.to_array()), \"transform_point = linear*p + translation\");\n"
                        "    check!(%s(q.to_array(), %s.to_array()), \"transform_vector = linear*p\");") % (
                    N, VT_, conv, P, Vv, leq, back("(m.%s * %s + m.translation)" % (lin, pe)), leq, back("(m.%s * %s)" % (lin, pe)))
                obs.append(Ob("c06_%s_%s_%s" % (config, ln, P), PROP, body, fn="%s::%s/%s" % (N, P, Vv), kind="lemma", solver="cvc5", stubs=["sse"], cls="structure", clauses=2,
                              desc="%s: %s == linear*p + translation, %s == linear*p (translation ignored)" % (N, P, Vv)))
    if config == "sse2":
        obs.append(Ob("c06_sse2_canary_mat3a_row_major", PROP,
                      'let a: [f32; 9] = vk::any(); let m = Mat3A::from_cols_array(&a); check!(m.col(1).to_array()[0].to_bits() == a[1].to_bits(), "row-major reading");',
                      fn="Mat3A::from_cols_array", kind="canary", expect="refute", desc="canary: from_cols_array read row-major"))
        obs.append(Ob("c06_sse2_canary_minor_swapped", PROP,
                      'let s = mk::<Mat3>(); let sa = s.to_cols_array(); let g = Mat2::from_mat3_minor(s, 0, 1).to_cols_array(); check!(g[0].to_bits() == sa[1].to_bits(), "minor(0,1) keeps column 0");',
                      fn="Mat2::from_mat3_minor", kind="canary", expect="refute", desc="canary: minor with i and j swapped"))
    return obs, uncovered


def run(s):
    for cfg in ("sse2", "scalar"):
        obs, unc = build(cfg, s.tier)
        s.run_config(cfg, [], obs)
    s.assumptions += [
        "product-convention lemmas are stated against glam's own vector `*`/`+` (lane contracts of C01) and accept the listed association orders",
        "(A*B)*v == A*(B*v) and M*v on the exact integer lattice are obligations of C03",
        "core-simd / NEON / wasm32 storage layouts are not compiled by the verifier",
    ]
    return s.finish(level_note="bit-for-bit column-major layout clauses for 7 matrix and 4 affine types; minors for every (i,j); index panics; product conventions",
                    trusted_base=["Kani 0.68 / CBMC 6.11 / CaDiCaL; cvc5 for the same-expression product lemmas"],
                    not_decided=["core-simd / NEON / wasm32 layouts"])
