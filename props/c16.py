"""C16 - swizzle getters and with_ setters permute exactly the lanes their names spell.

The clause table is GENERATED on every run from the method names found in the current source
(`impl VecNSwizzles for T` blocks + the trait's default methods): getter `abcd` => result lane i is
bit-for-bit source lane idx(letter i), result type as documented (type ascription, checked by
rustc); setter `with_ab(v)` => named lanes are v's lanes in order, every other lane unchanged
(frame), plus the two round-trip laws.  Clauses are discharged as bundled call-site obligations
(<= 32 methods folded into one boolean; on refutation the twin harness with one assertion per
method names the clause), full domain: every bit pattern of every lane, Vec3A with a symbolic hidden lane."""
import os, re, glob
import core
from core import Ob
import weave

PROP = "C16"
LET = "xyzw"


def family(tname):
    m = re.match(r"^(.*Vec)(\d)(A?)$", tname)
    return m.group(1), int(m.group(2)), m.group(3)


def out_type(tname, k):
    fam, n, a = family(tname)
    if tname == "Vec3A" and k == 3:
        return "Vec3A"
    if k == n:
        return tname
    return "%s%d" % (fam, k)


def scan(backend):
    """-> {type: {"n": n, "file": path, "methods": [(name, rhs_type or None, ret)]}}"""
    root = os.path.join(weave.REPO, "src", "swizzles")
    files = sorted(glob.glob(os.path.join(root, "*_impl.rs"))) + sorted(glob.glob(os.path.join(root, backend, "*_impl.rs")))
    traits = open(os.path.join(root, "vec_traits.rs")).read()
    # default methods (with a body) per trait
    defaults = {}
    for tm in re.finditer(r"pub trait Vec(\d)Swizzles[^{]*\{", traits):
        n = int(tm.group(1))
        start = tm.end()
        nxt = traits.find("pub trait", start)
        blk = traits[start: nxt if nxt > 0 else len(traits)]
        defaults[n] = re.findall(r"fn (\w+)\(self\) -> (?:Self(?:::Vec\d)?)\s*\{", blk)
        alln = re.findall(r"fn (\w+)\(self", blk)
        defaults[(n, "all")] = alln
    out = {}
    for f in files:
        src = open(f).read()
        m = re.search(r"impl Vec(\d)Swizzles for (\w+)", src)
        if not m:
            continue
        n, t = int(m.group(1)), m.group(2)
        meths = re.findall(r"fn (\w+)\(self(?:, rhs: (\w+))?\) -> (\w+)", src)
        names = set(x[0] for x in meths)
        for d in defaults.get(n, []):
            if d not in names:
                meths.append((d, "", "Self"))
        out[t] = {"n": n, "file": os.path.relpath(f, weave.REPO), "methods": meths,
                  "trait_methods": defaults.get((n, "all"), [])}
    return out


def getter_clause(t, n, name):
    k = len(name)
    rt = out_type(t, k)
    conds = " && ".join("rw[%d] == vw[%d]" % (i, LET.index(c)) for i, c in enumerate(name))
    return "{ let r: %s = v.%s(); let rw = r.words(); %s }" % (rt, name, conds)


def setter_clause(t, n, name):
    letters = name[len("with_"):]
    k = len(letters)
    rt = out_type(t, k)
    conds = []
    for lane in range(n):
        c = LET[lane]
        if c in letters:
            conds.append("rw[%d] == sw%d[%d]" % (lane, k, letters.index(c)))
        else:
            conds.append("rw[%d] == vw[%d]" % (lane, lane))
    # round-trip laws
    conds.append("mk::same(r.%s(), s%d)" % (letters, k))
    conds.append("mk::same(v.%s(v.%s()), v)" % (name, letters))
    return "{ let r: %s = v.%s(s%d); let rw = r.words(); %s }" % (t, name, k, " && ".join(conds))


def build(config, tier):
    backend = core.CONFIGS[config]["backend"]
    table = scan(backend)
    obs = []
    uncovered = []
    nclauses = 0
    for t in sorted(table):
        info = table[t]
        n = info["n"]
        simd = t in ("Vec3A", "Vec4")
        if config != "sse2" and not simd:
            continue
        getters, setters = [], []
        for (name, rhs, ret) in info["methods"]:
            if re.match(r"^[%s]{2,4}$" % LET[:n], name):
                getters.append(name)
            elif re.match(r"^with_[%s]{2,4}$" % LET[:n], name) and len(set(name[5:])) == len(name[5:]):
                setters.append(name)
            else:
                uncovered.append("%s::%s" % (t, name))
        # every method the trait declares must be covered (a method added to the trait but missing
        # from the table would show up here)
        for nm in info["trait_methods"]:
            if nm not in getters and nm not in setters:
                uncovered.append("%s::%s (declared in trait, not classified)" % (t, nm))
        quick = simd  # quick tier: the shuffle-based SIMD types + all setters of every type
        clauses = [(g, getter_clause(t, n, g), "quick" if quick else "thorough") for g in sorted(getters)]
        sclauses = [(s, setter_clause(t, n, s), "quick") for s in sorted(setters)]
        for kind, cl in (("get", clauses), ("set", sclauses)):
            B = 32 if kind == "get" else 16
            for bi in range(0, len(cl), B):
                chunk = cl[bi:bi + B]
                tr = chunk[0][2]
                name = "c16_%s_%s_%s_%d" % (config, t.lower(), kind, bi // B)
                pre = "let v = mk::<%s>(); let vw = v.words();" % t
                if kind == "set":
                    fam, _, _ = family(t)
                    for k in (2, 3, 4):
                        if k <= n:
                            pre += " let s%d = mk::<%s>(); let sw%d = s%d.words();" % (k, out_type(t, k), k, k)
                agg = pre + "\n    let ok = " + "\n        && ".join(c[1] for c in chunk) + ';\n    check!(ok, "bundle of %d swizzle clauses");' % len(chunk)
                spl = pre + "\n    " + "\n    ".join('check!(%s, "%s::%s");' % (c[1], t, c[0]) for c in chunk)
                desc = "%s %s %s..%s: lanes are the named lanes bit-for-bit%s" % (
                    t, "getters" if kind == "get" else "setters", chunk[0][0], chunk[-1][0], "" if kind == "get" else ", other lanes unchanged, round-trip laws")
                obs.append(Ob(name, PROP, agg, fn="%s swizzles (%s)" % (t, ", ".join(c[0] for c in chunk)), kind="bundle", solver="cadical",
                              stubs=["sse"], tier=tr, clauses=len(chunk), split=name + "__split", cls="bits", desc=desc))
                obs.append(Ob(name + "__split", PROP, spl, fn="%s swizzles" % t, kind="bundle-split", solver="cadical", stubs=["sse"], tier=tr, desc=desc))
                nclauses += len(chunk)
    if config == "sse2":
        obs.append(Ob("c16_sse2_canary_vec4_zwxy", PROP,
                      'let v = mk::<Vec4>(); let r = v.zwxy(); check!(r.words()[0] == v.words()[2] && r.words()[1] == v.words()[3] && r.words()[2] == v.words()[1] && r.words()[3] == v.words()[0], "zwxy as zwyx");',
                      fn="Vec4::zwxy", kind="canary", expect="refute", desc="canary: zwxy specified with the last two letters swapped"))
        obs.append(Ob("c16_sse2_canary_vec3a_with_zx_frame", PROP,
                      'let v = mk::<Vec3A>(); let s = mk::<Vec2>(); let r = v.with_zx(s); check!(r.words()[1] == s.words()[0], "with_zx touches y");',
                      fn="Vec3A::with_zx", kind="canary", expect="refute", desc="canary: with_zx specified as writing lane y"))
    return obs, uncovered, table


def run(s):
    unc_all = []
    ntypes = set()
    for cfg in ("sse2", "scalar"):
        obs, uncovered, table = build(cfg, s.tier)
        unc_all += ["%s: %s" % (cfg, u) for u in uncovered]
        ntypes |= set(table)
        s.run_config(cfg, [], obs)
    s.assumptions += [
        "clauses are asserted at the call site on fully symbolic operands (bundled call-site obligations, DESIGN 3.2); the swizzle impl functions themselves carry no woven attribute",
        "A2: SSE/SSE2 intrinsic model for `_mm_shuffle_ps` is Kani's built-in simd_shuffle; other intrinsics from model/sse.rs",
        "NEON / wasm32 / core-simd swizzle implementations are not compiled by the verifier",
    ]
    return s.finish(level_note="every swizzle getter/setter clause generated from the method names in the current source; full domain bit-for-bit",
                    trusted_base=["Kani 0.68 / CBMC 6.11 / CaDiCaL", "rustc type checking for the documented result types"],
                    extra_cov={"uncovered_methods": unc_all, "types": sorted(ntypes)},
                    not_decided=["core-simd, NEON, wasm32 swizzle implementations"])
