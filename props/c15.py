"""C15 - comparison masks, select and the mask algebra behave as lane-wise booleans.

Mask types as a data structure: abstract view = [bool; N] (through Into<[bool; N]>).  Every
constructor establishes the view it is given; every operation's postcondition is stated over the
WHOLE view (`& | ^ !`, set, the assign forms); any/all/bitmask/test/==/Hash/Into<[u32;N]> are
functions of the view only (BVec3A is built with a symbolic hidden lane; two masks with equal views
but different hidden lanes are indistinguishable, including through a recording Hasher).
cmp* on every vector type (float: all bit patterns incl. NaN and +-0) and select on all vector types are lane-wise.  Index out of range: always-panics obligations."""
import os, re
import core
from core import Ob
import weave
from gt import ALL_VECS, INT_VECS

PROP = "C15"
MASKS = [("BVec2", 2, False), ("BVec3", 3, False), ("BVec4", 4, False), ("BVec3A", 3, True), ("BVec4A", 4, True)]
CMP = {"cmpeq": "==", "cmpne": "!=", "cmplt": "<", "cmple": "<=", "cmpgt": ">", "cmpge": ">="}

HASHER = r"""
pub mod rec {
    /// no-alloc recording Hasher: stores every integer written, in order
    pub struct Rec { pub n: usize, pub v: [u64; 8], pub kinds: [u8; 8], pub bytes: bool }
    impl Rec { pub fn new() -> Self { Rec { n: 0, v: [0; 8], kinds: [0; 8], bytes: false } }
        fn push(&mut self, k: u8, x: u64) { if self.n < 8 { self.v[self.n] = x; self.kinds[self.n] = k; } self.n += 1; } }
    impl core::hash::Hasher for Rec {
        fn finish(&self) -> u64 { 0 }
        fn write(&mut self, _b: &[u8]) { self.bytes = true; self.push(9, _b.len() as u64); }
        fn write_u8(&mut self, i: u8) { self.push(1, i as u64) }
        fn write_u16(&mut self, i: u16) { self.push(2, i as u64) }
        fn write_u32(&mut self, i: u32) { self.push(4, i as u64) }
        fn write_u64(&mut self, i: u64) { self.push(8, i) }
        fn write_usize(&mut self, i: usize) { self.push(7, i as u64) }
    }
    pub fn same(a: &Rec, b: &Rec) -> bool {
        a.n == b.n && a.bytes == b.bytes
            && a.v[0] == b.v[0] && a.v[1] == b.v[1] && a.v[2] == b.v[2] && a.v[3] == b.v[3]
            && a.kinds[0] == b.kinds[0] && a.kinds[1] == b.kinds[1] && a.kinds[2] == b.kinds[2] && a.kinds[3] == b.kinds[3]
    }
}
"""


def view(m, n):
    return "<[bool; %d]>::from(%s)" % (n, m)


def build(config, tier):
    backend = core.CONFIGS[config]["backend"]
    obs, uncovered = [], []
    for (M, n, simd) in MASKS:
        if config != "sse2" and not simd:
            continue
        f = "src/bool/%s/%s.rs" % (backend, M.lower()) if simd else "src/bool/%s.rs" % M.lower()
        src = open(os.path.join(weave.REPO, f)).read()
        ln = M.lower()
        cl = []
        bools = ", ".join("a[%d]" % i for i in range(n))
        arr = lambda f_: "[%s]" % ", ".join(f_(i) for i in range(n))
        pre = "let a: [bool; %d] = vk::any(); let b: [bool; %d] = vk::any(); let m = mk::<%s>(); let k = mk::<%s>(); let vm = %s; let vk_ = %s;" % (
            n, n, M, M, view("m", n), view("k", n))
        cl.append(("new", "%s == a" % view("%s::new(%s)" % (M, bools), n)))
        cl.append(("splat", "%s == [a[0]; %d]" % (view("%s::splat(a[0])" % M, n), n)))
        cl.append(("from_array / From<[bool;N]>", "%s == a && %s == a" % (view("%s::from_array(a)" % M, n), view("<%s>::from(a)" % M, n))))
        cl.append(("bitmask", "m.bitmask() == __verif::bm%d(vm)" % n))
        cl.append(("any / all", "m.any() == __verif::any%d(vm) && m.all() == __verif::all%d(vm)" % (n, n)))
        cl.append(("test", " && ".join("m.test(%d) == vm[%d]" % (i, i) for i in range(n))))
        for i in range(n):
            cl.append(("set(%d, v) full view" % i, "{ let mut w = m; w.set(%d, a[0]); %s == %s }" % (i, view("w", n), arr(lambda j: "a[0]" if j == i else "vm[%d]" % j))))
        for (tr, sym) in (("BitAnd", "&"), ("BitOr", "|"), ("BitXor", "^")):
            cl.append(("%s and %s=" % (sym, sym), "%s == %s && { let mut w = m; w %s= k; %s == %s }" % (
                view("(m %s k)" % sym, n), arr(lambda j: "(vm[%d] %s vk_[%d])" % (j, sym, j)), sym, view("w", n), arr(lambda j: "(vm[%d] %s vk_[%d])" % (j, sym, j)))))
        cl.append(("!", "%s == %s" % (view("(!m)", n), arr(lambda j: "!vm[%d]" % j))))
        cl.append(("== / != are functions of the view", "(m == k) == (vm == vk_) && (m != k) == (vm != vk_)"))
        cl.append(("Hash is a function of the view", "{ use core::hash::Hash; let mut h1 = rec::Rec::new(); let mut h2 = rec::Rec::new(); m.hash(&mut h1); k.hash(&mut h2); !(vm == vk_) || rec::same(&h1, &h2) }"))
        if re.search(r"^impl From<%s> for \[u32; %d\] \{" % (M, n), src, re.M):
            cl.append(("Into<[u32;N]>", "<[u32; %d]>::from(m) == %s" % (n, arr(lambda j: "(if vm[%d] { !0u32 } else { 0u32 })" % j))))
        name = "c15_%s_%s_algebra" % (config, ln)
        agg = pre + "\n    let ok = " + "\n        && ".join("(%s)" % c[1] for c in cl) + ';\n    check!(ok, "bundle of %d mask clauses");' % len(cl)
        spl = pre + "\n    " + "\n    ".join('check!(%s, "%s: %s");' % (c[1], M, c[0]) for c in cl)
        desc = "%s as a data structure over the view [bool; %d]: %s" % (M, n, "; ".join(c[0] for c in cl))
        obs.append(Ob(name, PROP, agg, fn="%s" % M, kind="bundle", solver="cadical", stubs=["sse"], clauses=len(cl), split=name + "__split", cls="bits", desc=desc[:700]))
        obs.append(Ob(name + "__split", PROP, spl, fn="%s" % M, kind="bundle-split", solver="cadical", stubs=["sse"], desc=desc[:300]))
        # out of range index: always panics
        obs.append(Ob("c15_%s_%s_test_oob" % (config, ln), PROP, "let m = mk::<%s>(); let i: usize = vk::any(); vk::assume(i >= %d); let _r = m.test(i);" % (M, n),
                      fn="%s::test" % M, kind="panic", panic=True, stubs=["sse"], cls="control", desc="%s::test(i) with i >= %d never returns" % (M, n)))
        obs.append(Ob("c15_%s_%s_set_oob" % (config, ln), PROP, "let mut m = mk::<%s>(); let i: usize = vk::any(); vk::assume(i >= %d); m.set(i, vk::any());" % (M, n),
                      fn="%s::set" % M, kind="panic", panic=True, stubs=["sse"], cls="control", desc="%s::set(i, _) with i >= %d never returns" % (M, n)))
    # SIMD masks observationally identical to the plain ones
    for (A, P, n) in (("BVec3A", "BVec3", 3), ("BVec4A", "BVec4", 4)):
        body = """let a: [bool; {n}] = vk::any(); let b: [bool; {n}] = vk::any();
    let (x, y) = (<{A}>::from(a), <{A}>::from(b)); let (p, q) = (<{P}>::from(a), <{P}>::from(b));
    let ok = x.bitmask() == p.bitmask() && x.any() == p.any() && x.all() == p.all()
        && <[bool; {n}]>::from(x & y) == <[bool; {n}]>::from(p & q) && <[bool; {n}]>::from(x | y) == <[bool; {n}]>::from(p | q)
        && <[bool; {n}]>::from(x ^ y) == <[bool; {n}]>::from(p ^ q) && <[bool; {n}]>::from(!x) == <[bool; {n}]>::from(!p)
        && (x == y) == (p == q) && <[u32; {n}]>::from(x) == <[u32; {n}]>::from(p);
    check!(ok, "{A} observationally identical to {P}");""".format(A=A, P=P, n=n)
        obs.append(Ob("c15_%s_%s_vs_%s" % (config, A.lower(), P.lower()), PROP, body, fn="%s vs %s" % (A, P), kind="lemma", solver="cadical", stubs=["sse"], cls="bits",
                      desc="%s and %s built from the same bools agree on every observer" % (A, P)))
    # cmp* on integer vectors, select on all vectors
    for T in ([v for v in ALL_VECS if v.is_float and (config == "sse2" or v.simd)] + (INT_VECS if config == "sse2" else [])):
        if True:
            N, n, t = T.name, T.n, T.t
            conds = []
            for m, sym in CMP.items():
                conds.append("(v.%s(u).bitmask() == __verif::bm%d([%s]))" % (m, n, ", ".join("v.to_array()[%d] %s u.to_array()[%d]" % (i, sym, i) for i in range(n))))
            body = "let v = mk::<%s>(); let u = mk::<%s>();\n    let ok = %s;\n    check!(ok, \"six comparisons of %s\");" % (N, N, "\n        && ".join(conds), N)
            obs.append(Ob("c15_%s_%s_cmp" % (config, N.lower()), PROP, body, fn="%s::cmp*" % N, kind="bundle", solver="cadical", stubs=(["sse"] if T.is_float else []), clauses=6, cls="lane",
                          tier="quick", desc="%s cmpeq/ne/lt/le/gt/ge: mask lane i == primitive comparison of lane i" % N))
    for T in ALL_VECS:
        if config != "sse2" and not T.simd:
            continue
        N, n, t = T.name, T.n, T.t
        M = T.mask
        if N == "Vec4" and backend == "scalar":
            M = "BVec4"
        body = "let m = mk::<%s>(); let a = mk::<%s>(); let b = mk::<%s>(); let r = %s::select(m, a, b); let (rw, aw, bw) = (r.words(), a.words(), b.words());\n    check!(%s, \"select lanes\");" % (
            M, N, N, N, " && ".join("rw[%d] == (if m.test(%d) { aw[%d] } else { bw[%d] })" % (i, i, i, i) for i in range(n)))
        obs.append(Ob("c15_%s_%s_select" % (config, N.lower()), PROP, body, fn="%s::select" % N, kind="lemma", solver="cadical", stubs=["sse"], cls="bits",
                      tier="quick" if (T.is_float or t in ("i32", "u8")) else "thorough",
                      desc="%s::select(mask, a, b) lane i is a's lane where mask.test(i) else b's, bit-for-bit" % N))
    if config == "sse2":
        obs.append(Ob("c15_sse2_canary_bvec3a_xor_is_or", PROP, 'let m = mk::<BVec3A>(); let k = mk::<BVec3A>(); check!((m ^ k).bitmask() == (m.bitmask() | k.bitmask()), "xor is or");',
                      fn="BVec3A ^", kind="canary", expect="refute", desc="canary: ^ specified as |"))
        obs.append(Ob("c15_sse2_canary_select_swapped", PROP, 'let m = mk::<BVec4A>(); let a = mk::<Vec4>(); let b = mk::<Vec4>(); let r = Vec4::select(m, a, b); check!(r.words()[0] == (if m.test(0) { b.words()[0] } else { a.words()[0] }), "select swapped");',
                      fn="Vec4::select", kind="canary", expect="refute", desc="canary: select with the branches swapped"))
    return obs


def run(s):
    for cfg in ("sse2", "scalar"):
        s.run_config(cfg, [], build(cfg, s.tier), extra_rust=HASHER)
    s.assumptions += [
        "float cmp* masks: bitmask == lane-wise primitive comparison for all operand bit patterns (NaN, +-0 included), sse2 and scalar builds (also woven contracts of C01)",
        "Debug/Display of masks is not decided (core::fmt)",
        "BVec3A hidden lane: both values a comparison can leave there (all-ones / zero) are symbolic",
    ]
    return s.finish(level_note="mask types as data structures over the view [bool; N]; full-view postconditions; observational identity of SIMD and plain masks",
                    trusted_base=["Kani 0.68 / CBMC 6.11 / CaDiCaL", "model/sse.rs (movemask, compares)"],
                    not_decided=["Debug/Display output of masks", "core-simd / NEON / wasm32 mask representations"])
