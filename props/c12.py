"""C12 - interpolation, steering and clamping helpers hit endpoints and never overshoot.

DECIDED (full domain unless stated):
 * vector lerp returns the first operand at s = 0 and the second at s = 1 as IEEE values for finite
   operands, and is the affine form a*(1-s) + b*s otherwise (C02 combinators); FloatExt lerp /
   inverse_lerp / remap structure.
 * move_towards returns `rhs` itself bit-for-bit IFF len <= d || len <= 1e-4 (control) and otherwise
   self + (rhs-self)/len*d with len the code's own length (sqrt uninterpreted).
 * clamp_length / _min / _max: branch IFF length_sq < min^2 / > max^2, scaled value bound*(v/sqrt(length_sq)),
   untouched (bit-identical) inside the bounds.
 * any_orthogonal_vector: dot(self, r) == 0 EXACTLY whenever the two cross products are finite.
 * from_rotation_arc / _colinear / _2d: the three-way threshold branch (identity above 1-2eps, half turn
   below -(1-2eps), else normalize(cross, 1+dot)); quaternion slerp: sign flip IFF dot < 0, lerp fallback
   IFF dot > 1-eps (scalar build: weights sin((1-s)t)/sin t, sin(st)/sin t with sin uninterpreted).
NOT decided (needs real trigonometry / rounding analysis): angle proportionality and unit length of
slerp, never-overshoot, length preservation of rotate_towards, orthonormality of any_orthonormal_*,
from_rotation_arc(a,b)*a == b."""
import core
from core import Ob
from gt import FLOAT_VECS

PROP = "C12"


def build(config, tier):
    obs = []
    sse = config == "sse2"
    for T in FLOAT_VECS:
        if not sse and not T.simd:
            continue
        N, n, t, w = T.name, T.n, T.t, T.w
        ln = T.lname
        pre = "c12_%s_%s" % (config, ln)
        tr = "quick" if (T.simd or t == "f32") else "thorough"
        fin = lambda v: " && ".join("%s.to_array()[%d].is_finite()" % (v, i) for i in range(n))
        body = ("let a = mk::<{N}>(); let b = mk::<{N}>(); vk::assume({fa} && {fb});\n"
                "    check!(__verif::leq{w}x{n}(a.lerp(b, 0.0).to_array(), a.to_array()), \"lerp(s = 0) == a\"); check!(__verif::leq{w}x{n}(a.lerp(b, 1.0).to_array(), b.to_array()), \"lerp(s = 1) == b\");").format(
            N=N, w=w, n=n, fa=fin("a"), fb=fin("b"))
        obs.append(Ob("%s_lerp_endpoints" % pre, PROP, body, fn="%s::lerp" % N, kind="lemma", solver="cadical", stubs=["sse"], clauses=2, cls="lane", tier=tr,
                      desc="%s::lerp returns a at s = 0 and b at s = 1 (IEEE value) for all finite operands" % N))
        sq = "crate::uf::sqrt_f%d" % w
        if n in (2, 3):
            body = ("let a = mk::<{N}>(); let b = mk::<{N}>(); let d: {t} = vk::any(); let diff = b - a; let len = diff.length(); let r = a.move_towards(b, d);\n"
                    "    check!(if len <= d || len <= 1e-4 {{ __verif::leq{w}x{n}(r.to_array(), b.to_array()) }} else {{ __verif::leq{w}x{n}(r.to_array(), (a + diff / len * d).to_array()) }}, \"move_towards\");").format(N=N, t=t, w=w, n=n)
            obs.append(Ob("%s_move_towards" % pre, PROP, body, fn="%s::move_towards" % N, kind="lemma", solver="cvc5", stubs=["sse", "uf_sqrt%d" % w], cls="control", tier=tr,
                          desc="%s::move_towards returns the target itself IFF len <= d || len <= 1e-4, else self + (rhs-self)/len*d" % N))
        body = ("let a = mk::<{N}>(); let lo: {t} = vk::any(); let hi: {t} = vk::any(); let l2 = a.length_squared(); let s = {sq}(l2);\n"
                "    {{ let r = a.clamp_length(lo, hi); check!(if l2 < lo * lo {{ __verif::leq{w}x{n}(r.to_array(), (lo * (a / s)).to_array()) }} else if l2 > hi * hi {{ __verif::leq{w}x{n}(r.to_array(), (hi * (a / s)).to_array()) }} else {{ __verif::leq{w}x{n}(r.to_array(), a.to_array()) }}, \"clamp_length\"); }}\n"
                "    {{ let r = a.clamp_length_max(hi); check!(if l2 > hi * hi {{ __verif::leq{w}x{n}(r.to_array(), (hi * (a / s)).to_array()) }} else {{ __verif::leq{w}x{n}(r.to_array(), a.to_array()) }}, \"clamp_length_max\"); }}\n"
                "    {{ let r = a.clamp_length_min(lo); check!(if l2 < lo * lo {{ __verif::leq{w}x{n}(r.to_array(), (lo * (a / s)).to_array()) }} else {{ __verif::leq{w}x{n}(r.to_array(), a.to_array()) }}, \"clamp_length_min\"); }}").format(N=N, t=t, w=w, n=n, sq=sq)
        obs.append(Ob("%s_clamp_length" % pre, PROP, body, fn="%s::clamp_length*" % N, kind="lemma", solver="cvc5", stubs=["sse", "uf_sqrt%d" % w], cls="control", clauses=3, tier=tr,
                      desc="%s::clamp_length/_max/_min: rescaled to the bound IFF length_sq < min^2 / > max^2, otherwise returned bit-identical" % N))
        if n == 3:
            body = ("let a = mk::<{N}>(); let r = a.any_orthogonal_vector(); let (x, y) = (a.to_array(), r.to_array());\n"
                    "    vk::assume((x[0] * x[2]).is_finite() && (x[1] * x[2]).is_finite() && x[0].is_finite() && x[1].is_finite() && x[2].is_finite());\n"
                    "    check!(a.dot(r) == 0.0, \"any_orthogonal_vector is exactly orthogonal\");").format(N=N)
            obs.append(Ob("%s_any_orthogonal" % pre, PROP, body, fn="%s::any_orthogonal_vector" % N, kind="lemma", solver="cvc5", stubs=["sse"], cls="structure", tier=tr,
                          desc="%s::any_orthogonal_vector: dot(self, result) == 0 exactly whenever the lane products are finite" % N))
    if sse:
        for (t, w) in (("f32", 32), ("f64", 64)):
            body = ("let a: {t} = vk::any(); let b: {t} = vk::any(); let s: {t} = vk::any(); let c: {t} = vk::any(); let d: {t} = vk::any();\n"
                    "    check!(__verif::leq{w}(a.lerp(b, s), a + (b - a) * s), \"FloatExt::lerp\"); check!(__verif::leq{w}(<{t}>::inverse_lerp(a, b, s), (s - a) / (b - a)), \"inverse_lerp\");\n"
                    "    check!(__verif::leq{w}(s.remap(a, b, c, d), c + (d - c) * ((s - a) / (b - a))), \"remap\");").format(t=t, w=w)
            obs.append(Ob("c12_sse2_floatext_%s" % t, PROP, body, fn="FloatExt for %s" % t, kind="lemma", solver="cvc5", stubs=[], cls="structure", clauses=3,
                          desc="FloatExt::lerp/inverse_lerp/remap for %s are the documented affine forms" % t))
    # rotation arc branches and slerp branch selection
    for (Q, V3, V2, t, w) in (("Quat", "Vec3", "Vec2", "f32", 32), ("DQuat", "DVec3", "DVec2", "f64", 64)):
        if not sse and Q != "Quat":
            continue
        eps = "%s::EPSILON" % t
        body = ("let a = mk::<{V3}>(); let b = mk::<{V3}>(); let dot = a.dot(b); let one: {t} = 1.0 - 2.0 * {eps}; let q = <{Q}>::from_rotation_arc(a, b);\n"
                "    check!(if dot > one {{ __verif::leq{w}x4(q.to_array(), <{Q}>::IDENTITY.to_array()) }} else if dot < -one {{ true }} else {{ let c = a.cross(b).to_array(); __verif::leq{w}x4(q.to_array(), <{Q}>::from_xyzw(c[0], c[1], c[2], 1.0 + dot).normalize().to_array()) }}, \"from_rotation_arc branches\");\n"
                "    let qc = <{Q}>::from_rotation_arc_colinear(a, b); check!(__verif::leq{w}x4(qc.to_array(), (if dot < 0.0 {{ <{Q}>::from_rotation_arc(a, -b) }} else {{ q }}).to_array()), \"colinear aligns with +-b\");").format(
            Q=Q, V3=V3, t=t, w=w, eps=eps)
        obs.append(Ob("c12_%s_%s_rotation_arc" % (config, Q.lower()), PROP, body, fn="%s::from_rotation_arc(_colinear)" % Q, kind="lemma", solver="cvc5",
                      stubs=["sse", "uf_sqrt%d" % w, "uf_sin_cos%d" % w], cls="control", clauses=2,
                      desc="%s::from_rotation_arc: identity IFF dot > 1-2eps, half-turn branch IFF dot < -(1-2eps), else normalize((a x b, 1 + a.b)); _colinear flips b IFF dot < 0" % Q))
        body = ("let a = mk::<{V2}>(); let b = mk::<{V2}>(); let dot = a.dot(b); let one: {t} = 1.0 - 2.0 * {eps}; let q = <{Q}>::from_rotation_arc_2d(a, b).to_array();\n"
                "    check!(if dot > one {{ q[0] == 0.0 && q[1] == 0.0 && q[2] == 0.0 && q[3] == 1.0 }} else if dot < -one {{ q[0] == 0.0 && q[1] == 0.0 && q[2] == 1.0 && q[3] == 0.0 }} else {{ q[0] == 0.0 && q[1] == 0.0 }}, \"from_rotation_arc_2d branches\");").format(
            Q=Q, V2=V2, t=t, eps=eps)
        obs.append(Ob("c12_%s_%s_rotation_arc_2d" % (config, Q.lower()), PROP, body, fn="%s::from_rotation_arc_2d" % Q, kind="lemma", solver="cvc5", stubs=["sse", "uf_sqrt%d" % w], cls="control",
                      desc="%s::from_rotation_arc_2d: identity above the threshold, the half turn about z below it, a rotation about z in between" % Q))
        # slerp: branch selection (observable: at dot > 1 - eps the result is the normalized lerp)
        body = ("let a = mk::<{Q}>(); let b = mk::<{Q}>(); let s: {t} = vk::any(); let d0 = a.dot(b); let e = if d0 < 0.0 {{ -b }} else {{ b }}; let d = if d0 < 0.0 {{ -d0 }} else {{ d0 }};\n"
                "    vk::assume(d > 1.0 - {eps}); let r = a.slerp(b, s); check!(__verif::leq{w}x4(r.to_array(), (a * (1.0 - s) + e * s).normalize().to_array()), \"slerp falls back to normalized lerp toward the nearer of +-end\");").format(Q=Q, t=t, w=w, eps=eps)
        obs.append(Ob("c12_%s_%s_slerp_fallback" % (config, Q.lower()), PROP, body, fn="%s::slerp" % Q, kind="lemma", solver="cvc5", stubs=["sse", "uf_sqrt%d" % w, "uf_acos_approx%d" % w, "uf_sin%d" % w], cls="control",
                      desc="%s::slerp: end is negated IFF dot < 0 (shorter arc) and for |dot| > 1 - eps the result is the normalized lerp" % Q))
    if sse:
        obs.append(Ob("c12_sse2_canary_lerp_overshoot", PROP,
                      'let a = mk::<Vec3>(); let b = mk::<Vec3>(); vk::assume(a.is_finite() && b.is_finite()); check!(__verif::leq32x3(a.lerp(b, 1.0).to_array(), a.to_array()), "lerp(1) == a");',
                      fn="Vec3::lerp", kind="canary", expect="refute", desc="canary: lerp(s = 1) specified as the first operand"))
    return obs


def run(s):
    for cfg in ("sse2", "scalar"):
        s.run_config(cfg, [], build(cfg, s.tier))
    s.assumptions += [
        "A5: sqrt, sin, acos_approx uninterpreted (shared by code and spec)",
        "the half-turn branch of from_rotation_arc (any_orthonormal_vector + from_axis_angle(PI)) is only identified as taken, its value is not specified here",
        "rotate_towards: see C18 (panic for NaN angle) - its steering semantics are not decided",
    ]
    return s.finish(level_note="endpoint, threshold-branch and structure contracts of the interpolation / steering / clamping helpers",
                    trusted_base=["Kani 0.68 / CBMC 6.11 / cvc5 / CaDiCaL", "model/sse.rs"],
                    not_decided=["slerp angle proportionality and unit length", "never overshoots / moves exactly the requested angle", "length preservation of rotate_towards",
                                 "orthonormality to eps of any_orthonormal_vector/pair", "from_rotation_arc(a,b)*a == b"])
