"""C12 - interpolation, steering and clamping helpers hit endpoints and never overshoot.

DECIDED (full domain unless stated):
 * vector lerp returns the first operand at s = 0 and the second at s = 1 as IEEE values for finite
   operands, and is the affine form a*(1-s) + b*s otherwise (C02 combinators); FloatExt lerp /
   inverse_lerp / remap structure.
 * move_towards returns `rhs` itself bit-for-bit IFF len <= d || len <= 1e-4 (control) and otherwise
   self + (rhs-self)/len*d with len the code's own length (sqrt uninterpreted).
 * clamp_length / _min / _max: branch IFF length_sq < min^2 / > max^2, scaled value bound*(v/sqrt(length_sq)),
   untouched (bit-identical) inside the bounds.
 * any_orthogonal_vector: dot(self, r) == 0 EXACTLY whenever the two cross products are finite.
 * from_rotation_arc / _colinear / _2d: the three-way threshold branch (identity above 1-2eps, half turn
   below -(1-2eps), else normalize(cross, 1+dot)); quaternion slerp: sign flip IFF dot < 0, lerp fallback
   IFF dot > 1-eps (scalar build: weights sin((1-s)t)/sin t, sin(st)/sin t with sin uninterpreted).
NOT decided (needs real trigonometry / rounding analysis): angle proportionality and unit length of
slerp, never-overshoot, length preservation of rotate_towards, orthonormality of any_orthonormal_*,
from_rotation_arc(a,b)*a == b."""
import core
from core import Ob
from gt import FLOAT_VECS
import props.c02 as c02

PROP = "C12"

# method-level uninterpreted functions for the quaternion callees (vector callees: c02.GUF); see DESIGN 9.6
QUF = """
pub mod g_{ln} {{
    use glam::*; use crate::mk::*;
    static mut TD: MemoV<{t}> = MemoV::new(0.0);
    static mut TN: MemoV<{Q}> = MemoV::new(<{Q}>::IDENTITY);
    static mut TA: MemoV<{Q}> = MemoV::new(<{Q}>::IDENTITY);
    pub fn dot(a: {Q}, b: {Q}) -> {t} {{ unsafe {{ TD.get(key2(a.kwords(), b.kwords()), crate::vk::any()) }} }}
    pub fn normalize(a: {Q}) -> {Q} {{ unsafe {{ TN.get(key2(a.kwords(), [0; 4]), mk()) }} }}
    pub fn from_rotation_arc(a: {V}, b: {V}) -> {Q} {{ unsafe {{ TA.get(key2(a.kwords(), b.kwords()), mk()) }} }}
}}
"""


def extra(config):
    return c02.extra(config) + QUF.format(ln="quat", Q="Quat", t="f32", V="Vec3") + QUF.format(ln="dquat", Q="DQuat", t="f64", V="DVec3")


def mst(N, ln, w, *fns, more=()):
    return ["sse", "uf_sqrt%d" % w] + list(more) + [("glam::%s::%s" % (N, f_), "crate::g_%s::%s" % (ln, f_)) for f_ in fns]


def build(config, tier):
    obs = []
    sse = config == "sse2"
    for T in FLOAT_VECS:
        if not sse and not T.simd:
            continue
        N, n, t, w = T.name, T.n, T.t, T.w
        ln = T.lname
        pre = "c12_%s_%s" % (config, ln)
        tr = "quick" if (T.simd or t == "f32") else "thorough"
        fin = lambda v: " && ".join("%s.to_array()[%d].is_finite()" % (v, i) for i in range(n))
        body = ("let a = mk::<{N}>(); let b = mk::<{N}>(); vk::assume({fa} && {fb});\n"
                "    check!(__verif::leq{w}x{n}(a.lerp(b, 0.0).to_array(), a.to_array()), \"lerp(s = 0) == a\"); check!(__verif::leq{w}x{n}(a.lerp(b, 1.0).to_array(), b.to_array()), \"lerp(s = 1) == b\");").format(
            N=N, w=w, n=n, fa=fin("a"), fb=fin("b"))
        obs.append(Ob("%s_lerp_endpoints" % pre, PROP, body, fn="%s::lerp" % N, kind="lemma", solver="cadical", stubs=["sse"], clauses=2, cls="lane", tier=tr,
                      desc="%s::lerp returns a at s = 0 and b at s = 1 (IEEE value) for all finite operands" % N))
        sq = "crate::uf::sqrt_f%d" % w
        if n in (2, 3):
            body = ("let a = mk::<{N}>(); let b = mk::<{N}>(); let d: {t} = vk::any(); let diff = b - a; let len = diff.length(); let r = a.move_towards(b, d);\n"
                    "    check!(if len <= d || len <= 1e-4 {{ __verif::leq{w}x{n}(r.to_array(), b.to_array()) }} else {{ __verif::leq{w}x{n}(r.to_array(), (a + diff / len * d).to_array()) }}, \"move_towards\");").format(N=N, t=t, w=w, n=n)
            obs.append(Ob("%s_move_towards" % pre, PROP, body, fn="%s::move_towards" % N, kind="lemma", solver="cvc5", stubs=mst(N, ln, w, "length"), cls="control", tier=tr,
                          desc="%s::move_towards returns the target itself IFF len <= d || len <= 1e-4, else self + (rhs-self)/len*d, len = (rhs-self).length() (modular in length)" % N))
        hd = "let a = mk::<{N}>(); let lo: {t} = vk::any(); let hi: {t} = vk::any(); let l2 = a.length_squared(); let s = {sq}(l2);\n    "
        L = "__verif::leq{w}x{n}"
        for (sfx, txt, dsc) in (
                ("clamp_length", "let r = a.clamp_length(lo, hi); check!(if l2 < lo * lo {{ " + L + "(r.to_array(), (lo * (a / s)).to_array()) }} else if l2 > hi * hi {{ " + L + "(r.to_array(), (hi * (a / s)).to_array()) }} else {{ " + L + "(r.to_array(), a.to_array()) }}, \"clamp_length\");",
                 "rescaled to min IFF length_sq < min^2, to max IFF length_sq > max^2, otherwise returned unchanged"),
                ("clamp_length_max", "let r = a.clamp_length_max(hi); check!(if l2 > hi * hi {{ " + L + "(r.to_array(), (hi * (a / s)).to_array()) }} else {{ " + L + "(r.to_array(), a.to_array()) }}, \"clamp_length_max\");",
                 "rescaled to max IFF length_sq > max^2, otherwise returned unchanged"),
                ("clamp_length_min", "let r = a.clamp_length_min(lo); check!(if l2 < lo * lo {{ " + L + "(r.to_array(), (lo * (a / s)).to_array()) }} else {{ " + L + "(r.to_array(), a.to_array()) }}, \"clamp_length_min\");",
                 "rescaled to min IFF length_sq < min^2, otherwise returned unchanged")):
            obs.append(Ob("%s_%s" % (pre, sfx), PROP, (hd + txt).format(N=N, t=t, w=w, n=n, sq=sq), fn="%s::%s" % (N, sfx), kind="lemma", solver="cvc5", stubs=mst(N, ln, w, "length_squared"), cls="control", tier=tr,
                          desc="%s::%s: %s; the rescaled value is bound * (v / sqrt(length_sq)) (modular in length_squared, sqrt uninterpreted)" % (N, sfx, dsc)))
        if n == 3:
            body = ("let a = mk::<{N}>(); let r = a.any_orthogonal_vector().to_array(); let x = a.to_array();\n"
                    "    check!(if x[0].abs() > x[1].abs() {{ mk::same(<{N}>::from_array(r), <{N}>::new(-x[2], 0.0, x[0])) }} else {{ mk::same(<{N}>::from_array(r), <{N}>::new(0.0, x[2], -x[1])) }}, \"any_orthogonal_vector is (-z, 0, x) or (0, z, -y)\");").format(N=N)
            obs.append(Ob("%s_any_orthogonal_form" % pre, PROP, body, fn="%s::any_orthogonal_vector" % N, kind="lemma", solver="cadical", stubs=["sse"], cls="bits", tier=tr,
                          desc="%s::any_orthogonal_vector is bit-for-bit (-z, 0, x) when |x| > |y| and (0, z, -y) otherwise, full domain: its dot product with self is x*(-z) + z*x resp. y*z + z*(-y), exactly 0 for finite products" % N))
            vc = (lambda vi: "mk::vec3a_of(sp::f32x3(%s))" % vi) if N == "Vec3A" else (lambda vi: "<%s>::from_array(sp::f%dx3(%s))" % (N, w, vi))
            obs.append(Ob("%s_any_orthogonal_lat" % pre, PROP, "let ai = sp::lat3(8); let a = %s; check!(a.dot(a.any_orthogonal_vector()) == 0.0, \"exactly orthogonal on the lattice\");" % vc("ai"),
                          fn="%s::any_orthogonal_vector" % N, kind="lemma", solver="cadical", stubs=["sse"], cls="lattice", tier=tr, desc="%s::any_orthogonal_vector: dot(self, result) == 0 exactly on the integer lattice [-8,8]^3" % N))
            body = ("let a = mk::<{N}>(); let r = a.any_orthogonal_vector(); let (x, y) = (a.to_array(), r.to_array());\n"
                    "    vk::assume((x[0] * x[2]).is_finite() && (x[1] * x[2]).is_finite() && x[0].is_finite() && x[1].is_finite() && x[2].is_finite());\n"
                    "    check!(a.dot(r) == 0.0, \"any_orthogonal_vector is exactly orthogonal\");").format(N=N)
            obs.append(Ob("%s_any_orthogonal" % pre, PROP, body, fn="%s::any_orthogonal_vector" % N, kind="lemma", solver="cvc5", stubs=["sse"], cls="structure", tier="thorough",
                          desc="%s::any_orthogonal_vector: dot(self, result) == 0 exactly whenever the lane products are finite (full domain)" % N))
    if sse:
        for (t, w) in (("f32", 32), ("f64", 64)):
            body = ("let a: {t} = vk::any(); let b: {t} = vk::any(); let s: {t} = vk::any(); let c: {t} = vk::any(); let d: {t} = vk::any();\n"
                    "    check!(__verif::leq{w}(a.lerp(b, s), a + (b - a) * s), \"FloatExt::lerp\"); check!(__verif::leq{w}(<{t}>::inverse_lerp(a, b, s), (s - a) / (b - a)), \"inverse_lerp\");\n"
                    "    check!(__verif::leq{w}(s.remap(a, b, c, d), c + (d - c) * ((s - a) / (b - a))), \"remap\");").format(t=t, w=w)
            obs.append(Ob("c12_sse2_floatext_%s" % t, PROP, body, fn="FloatExt for %s" % t, kind="lemma", solver="cvc5", stubs=[], cls="structure", clauses=3,
                          desc="FloatExt::lerp/inverse_lerp/remap for %s are the documented affine forms" % t))
    # rotation arc branches and slerp branch selection
    for (Q, V3, V2, t, w) in (("Quat", "Vec3", "Vec2", "f32", 32), ("DQuat", "DVec3", "DVec2", "f64", 64)):
        if not sse and Q != "Quat":
            continue
        eps = "%s::EPSILON" % t
        ql = Q.lower()
        qt = "quick" if Q == "Quat" else "thorough"
        qst = lambda *pairs: ["sse", "uf_sqrt%d" % w, "uf_sin_cos%d" % w] + [("glam::%s::%s" % (T_, f_), "crate::g_%s::%s" % (T_.lower(), f_)) for (T_, f_) in pairs]
        body = ("let a = mk::<{V3}>(); let b = mk::<{V3}>(); let dot = a.dot(b); let one: {t} = 1.0 - 2.0 * {eps}; let q = <{Q}>::from_rotation_arc(a, b);\n"
                "    check!(if dot > one {{ __verif::leq{w}x4(q.to_array(), <{Q}>::IDENTITY.to_array()) }} else if dot < -one {{ true }} else {{ let c = a.cross(b).to_array(); __verif::leq{w}x4(q.to_array(), <{Q}>::from_xyzw(c[0], c[1], c[2], 1.0 + dot).normalize().to_array()) }}, \"from_rotation_arc branches\");").format(
            Q=Q, V3=V3, t=t, w=w, eps=eps)
        obs.append(Ob("c12_%s_%s_rotation_arc" % (config, ql), PROP, body, fn="%s::from_rotation_arc" % Q, kind="lemma", solver="cvc5",
                      stubs=qst((V3, "dot"), (Q, "normalize")), cls="control", tier=qt,
                      desc="%s::from_rotation_arc: identity IFF dot > 1-2eps, half-turn branch IFF dot < -(1-2eps), else normalize((a x b, 1 + a.b)) (modular in Vec3::dot and normalize)" % Q))
        body = ("let a = mk::<{V3}>(); let b = mk::<{V3}>(); let dot = a.dot(b); let qc = <{Q}>::from_rotation_arc_colinear(a, b);\n"
                "    check!(__verif::leq{w}x4(qc.to_array(), (if dot < 0.0 {{ <{Q}>::from_rotation_arc(a, -b) }} else {{ <{Q}>::from_rotation_arc(a, b) }}).to_array()), \"colinear aligns with +-b\");").format(Q=Q, V3=V3, w=w)
        obs.append(Ob("c12_%s_%s_rotation_arc_colinear" % (config, ql), PROP, body, fn="%s::from_rotation_arc_colinear" % Q, kind="lemma", solver="cvc5",
                      stubs=qst((V3, "dot"), (Q, "from_rotation_arc")), cls="control", tier=qt,
                      desc="%s::from_rotation_arc_colinear == from_rotation_arc(a, -b) IFF a.b < 0, else from_rotation_arc(a, b) (modular in dot and from_rotation_arc)" % Q))
        body = ("let a = mk::<{V2}>(); let b = mk::<{V2}>(); let dot = a.dot(b); let one: {t} = 1.0 - 2.0 * {eps}; let q = <{Q}>::from_rotation_arc_2d(a, b).to_array();\n"
                "    check!(if dot > one {{ q[0] == 0.0 && q[1] == 0.0 && q[2] == 0.0 && q[3] == 1.0 }} else if dot < -one {{ q[0] == 0.0 && q[1] == 0.0 && q[2] == 1.0 && q[3] == 0.0 }} else {{ q[0] == 0.0 && q[1] == 0.0 }}, \"from_rotation_arc_2d branches\");").format(
            Q=Q, V2=V2, t=t, eps=eps)
        obs.append(Ob("c12_%s_%s_rotation_arc_2d" % (config, Q.lower()), PROP, body, fn="%s::from_rotation_arc_2d" % Q, kind="lemma", solver="cvc5", stubs=qst((V2, "dot")), cls="control", tier=qt,
                      desc="%s::from_rotation_arc_2d: identity above the threshold, the half turn about z below it, a rotation about z in between" % Q))
        # slerp: branch selection (observable: at dot > 1 - eps the result is the normalized lerp)
        for (sfx, cond, e, d, what) in (("pos", "!(d0 < 0.0)", "b", "d0", "dot >= 0: toward end"), ("neg", "d0 < 0.0", "(-b)", "(-d0)", "dot < 0: toward -end (shorter arc)")):
            body = ("let a = mk::<{Q}>(); let b = mk::<{Q}>(); let s: {t} = vk::any(); let d0 = a.dot(b); vk::assume({cond} && {d} > 1.0 - {eps});\n"
                    "    let r = a.slerp(b, s); check!(__verif::leq{w}x4(r.to_array(), (a * (1.0 - s) + {e} * s).normalize().to_array()), \"slerp falls back to normalized lerp toward the nearer of +-end\");").format(Q=Q, t=t, w=w, eps=eps, cond=cond, e=e, d=d)
            obs.append(Ob("c12_%s_%s_slerp_fallback_%s" % (config, ql, sfx), PROP, body, fn="%s::slerp" % Q, kind="lemma", solver="cvc5",
                          stubs=["sse", "uf_sqrt%d" % w, "uf_acos_approx%d" % w, "uf_sin%d" % w, ("glam::%s::dot" % Q, "crate::g_%s::dot" % ql), ("glam::%s::normalize" % Q, "crate::g_%s::normalize" % ql)], cls="control", tier="thorough",
                          desc="%s::slerp (modular in dot and normalize), %s: for |dot| > 1 - eps the result is the normalized lerp a*(1-s) + (+-end)*s" % (Q, what)))
        mkq = (lambda vi: "<%s>::from_array(sp::f%dx4(%s))" % (Q, w, vi))
        body = ("unsafe {{ crate::uf::SQRT{w}_MODE = crate::uf::POW2; }} let ai = sp::lat4(1); vk::assume(sp::norm2(ai) == 1); let neg: bool = vk::any(); let bi = if neg {{ [-ai[0], -ai[1], -ai[2], -ai[3]] }} else {{ ai }};\n"
                "    let a = {A}; let b = {B}; let k: u8 = vk::any(); vk::assume(k <= 2); let s: {t} = if k == 0 {{ 0.0 }} else if k == 1 {{ 0.5 }} else {{ 1.0 }};\n"
                "    let r = a.slerp(b, s); let e = if neg {{ -b }} else {{ b }}; check!(__verif::leq{w}x4(r.to_array(), (a * (1.0 - s) + e * s).normalize().to_array()), \"slerp between q and +-q on the lattice\");").format(w=w, t=t, A=mkq("ai"), B=mkq("bi"))
        obs.append(Ob("c12_%s_%s_slerp_lat" % (config, ql), PROP, body, fn="%s::slerp" % Q, kind="lemma", solver="cadical", stubs=["sse", "uf_sqrt%d" % w, "uf_acos_approx%d" % w, "uf_sin%d" % w], cls="lattice", tier=qt,
                      desc="%s::slerp between a lattice unit quaternion q and +-q at s in {0, 1/2, 1}: the end is negated IFF dot < 0 and the result is the normalized lerp (sqrt an uninterpreted function with values in {1,2,4})" % Q))
    if sse:
        obs.append(Ob("c12_sse2_canary_lerp_overshoot", PROP,
                      'let a = mk::<Vec3>(); let b = mk::<Vec3>(); vk::assume(a.is_finite() && b.is_finite()); check!(__verif::leq32x3(a.lerp(b, 1.0).to_array(), a.to_array()), "lerp(1) == a");',
                      fn="Vec3::lerp", kind="canary", expect="refute", desc="canary: lerp(s = 1) specified as the first operand"))
    return obs


def run(s):
    for cfg in ("sse2", "scalar"):
        s.run_config(cfg, [], build(cfg, s.tier), extra_rust=extra(cfg))
    s.assumptions += [
        "A5: sqrt, sin, acos_approx uninterpreted (shared by code and spec)",
        "modular lemmas: where a clause is marked 'modular in f', the callee f is replaced by an arbitrary function of the operand bits in BOTH code and spec; f's own clauses are obligations of C02 / C04",
        "the half-turn branch of from_rotation_arc (any_orthonormal_vector + from_axis_angle(PI)) is only identified as taken, its value is not specified here",
        "rotate_towards: see C18 (panic for NaN angle) - its steering semantics are not decided",
    ]
    return s.finish(level_note="endpoint, threshold-branch and structure contracts of the interpolation / steering / clamping helpers",
                    trusted_base=["Kani 0.68 / CBMC 6.11 / cvc5 / CaDiCaL", "model/sse.rs"],
                    not_decided=["slerp angle proportionality and unit length", "never overshoots / moves exactly the requested angle", "length preservation of rotate_towards",
                                 "orthonormality to eps of any_orthonormal_vector/pair", "from_rotation_arc(a,b)*a == b"])
