"""C10 - scale-rotation-translation composition and decomposition are mutually consistent.

Composition (exact lattice lemmas on the code itself, quaternion / scale / translation components in
{-1,0,1}, sin_cos uninterpreted on the lattice): each composite constructor EQUALS the documented
product of the elementary constructors, translation * rotation * scale, identically on
Mat4/DMat4, Affine3A/DAffine3, Affine2/DAffine2, Mat3 (2D) and Mat2.
Decomposition: translation is the last column bit-for-bit (full domain); on the lattice of
shear-free transforms T*R*S with R one of the 12 cube rotations with rational quaternion, S in
{+-1,+-2}^3 (all 8 sign patterns), T on the grid, with sqrt pinned on its exact points, recomposing the
returned (scale, rotation, translation) reproduces the matrix EXACTLY, the scale magnitudes are |S|
and a negative determinant is reported as a negative x scale."""
import core
from core import Ob

PROP = "C10"


def arr_eq(l, r, n):
    return " && ".join("%s[%d] == %s[%d]" % (l, i, r, i) for i in range(n))


def build(config, tier):
    obs = []
    sse = config == "sse2"
    T3 = [("Mat4", "Quat", "Vec3", "Mat3", 32, 16), ("Affine3A", "Quat", "Vec3", "Mat3", 32, 12)]
    if sse:
        T3 += [("DMat4", "DQuat", "DVec3", "DMat3", 64, 16), ("DAffine3", "DQuat", "DVec3", "DMat3", 64, 12)]
    for (T, Q, V, M3, w, nn) in T3:
        ln = T.lower()
        tr = "quick" if w == 32 else "thorough"
        head = "let qi = sp::lat4(1); let si = sp::lat3(1); let ti = sp::lat3(1); let q = <%s>::from_array(sp::f%dx4(qi)); let s = <%s>::from_array(sp::f%dx3(si)); let t = <%s>::from_array(sp::f%dx3(ti));" % (Q, w, V, w, V, w)
        body = head + "\n    let l = <%s>::from_scale_rotation_translation(s, q, t).to_cols_array(); let r = (<%s>::from_translation(t) * <%s>::from_quat(q) * <%s>::from_scale(s)).to_cols_array();\n    check!(%s, \"SRT == T * R * S\");" % (T, T, T, T, arr_eq("l", "r", nn))
        obs.append(Ob("c10_%s_%s_srt" % (config, ln), PROP, body, fn="%s::from_scale_rotation_translation" % T, kind="lemma", solver="cadical", stubs=["sse"], cls="lattice", tier=tr,
                      desc="%s::from_scale_rotation_translation(s, q, t) == from_translation(t) * from_quat(q) * from_scale(s) exactly on the lattice" % T))
        body = head + "\n    let l = <%s>::from_rotation_translation(q, t).to_cols_array(); let r = (<%s>::from_translation(t) * <%s>::from_quat(q)).to_cols_array();\n    check!(%s, \"RT == T * R\");" % (T, T, T, arr_eq("l", "r", nn))
        obs.append(Ob("c10_%s_%s_rt" % (config, ln), PROP, body, fn="%s::from_rotation_translation" % T, kind="lemma", solver="cadical", stubs=["sse"], cls="lattice", tier=tr,
                      desc="%s::from_rotation_translation(q, t) == from_translation(t) * from_quat(q) exactly on the lattice" % T))
        body = "let mi = sp::lat9(1); let ti = sp::lat3(1); let m = <%s>::from_cols_array(&sp::f%dx9(mi)); let t = <%s>::from_array(sp::f%dx3(ti));\n    let l = <%s>::from_mat3_translation(m, t).to_cols_array(); let r = (<%s>::from_translation(t) * <%s>::from_mat3(m)).to_cols_array();\n    check!(%s, \"from_mat3_translation == T * M\");" % (
            M3, w, V, w, T, T, T, arr_eq("l", "r", nn))
        obs.append(Ob("c10_%s_%s_mat3_translation" % (config, ln), PROP, body, fn="%s::from_mat3_translation" % T, kind="lemma", solver="cadical", stubs=["sse"], cls="lattice", tier=tr,
                      desc="%s::from_mat3_translation(m, t) == from_translation(t) * from_mat3(m) exactly on the lattice" % T))
        # decomposition: translation bit-for-bit, full domain
        body = "let m = mk::<%s>(); let (_s, _r, t) = m.to_scale_rotation_translation(); let a = m.to_cols_array(); let tt = t.to_array();\n    check!(tt[0].to_bits() == a[%d].to_bits() && tt[1].to_bits() == a[%d].to_bits() && tt[2].to_bits() == a[%d].to_bits(), \"translation is the last column\");" % (
            T, nn - (4 if nn == 16 else 3), nn - (3 if nn == 16 else 2), nn - (2 if nn == 16 else 1))
        obs.append(Ob("c10_%s_%s_decompose_translation" % (config, ln), PROP, body, fn="%s::to_scale_rotation_translation" % T, kind="lemma", solver="cadical",
                      stubs=["sse", "uf_sqrt%d" % w], cls="bits", tier=tr,
                      desc="%s::to_scale_rotation_translation returns the last column as translation bit-for-bit (full domain, sqrt uninterpreted)" % T))
        # recomposition on the shear-free lattice
        body = ("unsafe { crate::uf::SQRT_PINNED = true; } let qi = sp::lat4(1); let n2 = sp::norm2(qi); vk::assume(n2 == 1 || n2 == 4); let e = sp::qmat(qi);\n"
                "    let sg = sp::lat3(1); let sm = sp::lat3(1); vk::assume(sg[0] != 0 && sg[1] != 0 && sg[2] != 0); let si = [sg[0] * (1 + sm[0] * sm[0]), sg[1] * (1 + sm[1] * sm[1]), sg[2] * (1 + sm[2] * sm[2])]; let ti = sp::lat3(1);\n"
                "    let mi: [i16; 12] = [e[0] / n2 * si[0], e[1] / n2 * si[0], e[2] / n2 * si[0], e[3] / n2 * si[1], e[4] / n2 * si[1], e[5] / n2 * si[1], e[6] / n2 * si[2], e[7] / n2 * si[2], e[8] / n2 * si[2], ti[0], ti[1], ti[2]];\n")
        if nn == 16:
            body += "    let m = <%s>::from_cols_array(&[mi[0] as f%d, mi[1] as f%d, mi[2] as f%d, 0.0, mi[3] as f%d, mi[4] as f%d, mi[5] as f%d, 0.0, mi[6] as f%d, mi[7] as f%d, mi[8] as f%d, 0.0, mi[9] as f%d, mi[10] as f%d, mi[11] as f%d, 1.0]);\n" % ((T,) + (w,) * 12)
        else:
            body += "    let m = <%s>::from_cols_array(&sp::f%dx12(mi));\n" % (T, w)
        body += ("    let (s, r, t) = m.to_scale_rotation_translation(); let back = <%s>::from_scale_rotation_translation(s, r, t).to_cols_array(); let orig = m.to_cols_array(); let sa = s.to_array(); let det = si[0] * si[1] * si[2];\n"
                 "    check!(%s, \"recomposition reproduces the transform exactly\");\n"
                 "    check!(sp::eqi%d(sa[1], si[1].abs()) && sp::eqi%d(sa[2], si[2].abs()) && sp::eqi%d(sa[0], if det < 0 { -si[0].abs() } else { si[0].abs() }), \"scale magnitudes; negative determinant reported as negative x scale\");") % (
            T, arr_eq("back", "orig", nn), w, w, w)
        obs.append(Ob("c10_%s_%s_recompose" % (config, ln), PROP, body, fn="%s::to_scale_rotation_translation" % T, kind="lemma", solver="cadical", stubs=["sse", "uf_sqrt%d" % w], cls="lattice", clauses=2,
                      tier="thorough",
                      desc="%s: decompose then recompose is exact for T*R*S with R a rational cube rotation (all four matrix->quaternion branches), S in {+-1,+-2}^3 (8 sign patterns), T on the grid; scale is |S| with the sign of det on x" % T))
    # ---- 2D
    T2 = [("Affine2", "Vec2", "Mat2", 32, 6), ("Mat3", "Vec2", "Mat2", 32, 9)]
    if sse:
        T2 += [("DAffine2", "DVec2", "DMat2", 64, 6), ("DMat3", "DVec2", "DMat2", 64, 9)]
    for (T, V, M2, w, nn) in T2:
        if not sse and T != "Affine2":
            continue
        t_ = "f32" if w == 32 else "f64"
        ln = T.lower()
        mode = "unsafe { crate::uf::SINCOS%d_MODE = crate::uf::LAT; }" % w
        head = mode + " let a: %s = vk::any(); vk::assume(a.is_finite()); let si = sp::lat2(1); let ti = sp::lat2(1); let s = <%s>::from_array(sp::f%dx2(si)); let t = <%s>::from_array(sp::f%dx2(ti));" % (t_, V, w, V, w)
        body = head + "\n    let l = <%s>::from_scale_angle_translation(s, a, t).to_cols_array(); let r = (<%s>::from_translation(t) * <%s>::from_angle(a) * <%s>::from_scale(s)).to_cols_array();\n    check!(%s, \"SAT == T * R * S\");" % (T, T, T, T, arr_eq("l", "r", nn))
        obs.append(Ob("c10_%s_%s_sat" % (config, ln), PROP, body, fn="%s::from_scale_angle_translation" % T, kind="lemma", solver="cadical", stubs=["sse", "uf_sin_cos%d" % w], cls="lattice",
                      tier="quick",
                      desc="%s::from_scale_angle_translation(s, a, t) == from_translation(t) * from_angle(a) * from_scale(s) exactly (sin/cos uninterpreted on the lattice, every angle)" % T))
        if T.endswith("Affine2"):
            body = head + "\n    let l = <%s>::from_angle_translation(a, t).to_cols_array(); let r = (<%s>::from_translation(t) * <%s>::from_angle(a)).to_cols_array(); let mi = sp::lat4(1); let m2 = <%s>::from_cols_array(&sp::f%dx4(mi));\n    let l2 = <%s>::from_mat2_translation(m2, t).to_cols_array(); let r2 = (<%s>::from_translation(t) * <%s>::from_mat2(m2)).to_cols_array();\n    check!(%s && %s, \"AT == T * R, from_mat2_translation == T * M\");" % (
                T, T, T, M2, w, T, T, T, arr_eq("l", "r", nn), arr_eq("l2", "r2", nn))
            obs.append(Ob("c10_%s_%s_at" % (config, ln), PROP, body, fn="%s::from_angle_translation / from_mat2_translation" % T, kind="lemma", solver="cadical", stubs=["sse", "uf_sin_cos%d" % w], cls="lattice",
                          tier="quick", desc="%s::from_angle_translation == T * R; from_mat2_translation == T * from_mat2" % T))
            body = "let m = mk::<%s>(); let (_s, _a, t) = m.to_scale_angle_translation(); let f = m.to_cols_array(); let tt = t.to_array();\n    check!(tt[0].to_bits() == f[4].to_bits() && tt[1].to_bits() == f[5].to_bits(), \"translation is the last column\");" % T
            obs.append(Ob("c10_%s_%s_decompose_translation" % (config, ln), PROP, body, fn="%s::to_scale_angle_translation" % T, kind="lemma", solver="cadical",
                          stubs=["sse", "uf_sqrt%d" % w, "uf_atan2%d" % w], cls="bits", tier="quick" if w == 32 else "thorough",
                          desc="%s::to_scale_angle_translation returns the last column as translation bit-for-bit" % T))
    for (M2, V, w) in (("Mat2", "Vec2", 32), ("DMat2", "DVec2", 64)):
        if not sse and M2 != "Mat2":
            continue
        t_ = "f32" if w == 32 else "f64"
        body = "unsafe { crate::uf::SINCOS%d_MODE = crate::uf::LAT; } let a: %s = vk::any(); vk::assume(a.is_finite()); let si = sp::lat2(1); let s = <%s>::from_array(sp::f%dx2(si));\n    let l = <%s>::from_scale_angle(s, a).to_cols_array(); let r = (<%s>::from_angle(a) * <%s>::from_diagonal(s)).to_cols_array();\n    check!(%s, \"from_scale_angle == R * S\");" % (
            w, t_, V, w, M2, M2, M2, arr_eq("l", "r", 4))
        obs.append(Ob("c10_%s_%s_scale_angle" % (config, M2.lower()), PROP, body, fn="%s::from_scale_angle" % M2, kind="lemma", solver="cadical", stubs=["sse", "uf_sin_cos%d" % w], cls="lattice",
                      desc="%s::from_scale_angle(s, a) == from_angle(a) * from_diagonal(s) exactly" % M2))
    if sse:
        obs.append(Ob("c10_sse2_canary_srt_order", PROP,
                      'let qi = sp::lat4(1); let si = sp::lat3(1); let ti = sp::lat3(1); let q = Quat::from_array(sp::f32x4(qi)); let s = Vec3::from_array(sp::f32x3(si)); let t = Vec3::from_array(sp::f32x3(ti)); let l = Mat4::from_scale_rotation_translation(s, q, t).to_cols_array(); let r = (Mat4::from_scale(s) * Mat4::from_quat(q) * Mat4::from_translation(t)).to_cols_array(); check!(l[12] == r[12] && l[13] == r[13] && l[14] == r[14] && l[0] == r[0] && l[1] == r[1], "S*R*T");',
                      fn="Mat4::from_scale_rotation_translation", kind="canary", expect="refute", desc="canary: SRT specified as scale * rotation * translation"))
    return obs


def run(s):
    for cfg in ("sse2", "scalar"):
        s.run_config(cfg, [], build(cfg, s.tier))
    s.assumptions += [
        "A4: lattice lemma (polynomial identity from agreement on {-1,0,1}^n); A5: sin_cos/sqrt uninterpreted, sqrt pinned on {0, 1/4, 1, 4, 16}",
        "decomposition of general (non-lattice) transforms to within rounding, and the 2D angle returned by to_scale_angle_translation, are not decided",
        "A3: off the lattice results are the verified expression trees evaluated in floating point",
        "the decompose -> recompose lattice obligations take 6-10 minutes each and run in the thorough tier only; the quick tier covers composition and the translation clause of decomposition",
    ]
    return s.finish(level_note="composite constructors equal the documented products exactly on the lattice; decomposition/recomposition exact on shear-free lattice transforms",
                    trusted_base=["Kani 0.68 / CBMC 6.11 / CaDiCaL", "model/sse.rs"],
                    not_decided=["recomposition accuracy for scales in [1e-3,1e3] and arbitrary unit rotations", "to_scale_angle_translation angle/scale beyond the translation clause"])
