"""C07 - backend and build-configuration independence of all SIMD-backed types.

Not a separate mechanism: every woven contract of C01-C04 on the SIMD-backed types (Vec3A, Vec4, Quat,
Mat2, Mat3A, Mat4) is discharged against THE SAME CONTRACT TEXT in three builds of the current tree:
default SSE2, `scalar-math`, and SSE2 compiled with `-C target-feature=+fma,+avx2`.
Two builds that both satisfy `result == spec(inputs)` for a lane / bit contract return the same
value; where the contract is a tree_in (sum in any association order) they agree up to exactly the
re-association slack the property allows; discrete outcomes agree because the control contracts
(normalize family, comparisons, masks) state the same predicate over the same deciding expression.
This check (a) verifies on every run that the contract texts generated for the three builds are
textually identical (up to the documented mask type of scalar Vec4), and (b) discharges them in the
`fma` build (quick) and in all three builds (thorough); the sse2 and scalar builds are also
discharged by the quick checks of C01-C04 themselves."""
import re, hashlib
import core
import props.c01 as c01, props.c02 as c02, props.c03 as c03, props.c04 as c04

PROP = "C07"
SIMD_RE = re.compile(r"^c0\d_[a-z0-9]+_(vec3a|vec4|quat|mat2|mat3a|mat4)_")


def collect(config, tier):
    cs, obs, extra = [], [], []
    r = c01.build(config, tier)
    cs += r[0]; obs += r[1]; extra.append(r[2])
    r = c02.build(config, tier)
    cs += r[0]; obs += r[1]; extra.append(c02.extra(config))
    r = c03.build(config, tier)
    cs += r[0]; obs += r[1]; extra.append(r[2])
    r = c04.build(config, tier)
    cs += r[0]; obs += r[1]; extra.append(r[2])
    keep = []
    for o in obs:
        if not SIMD_RE.match(o.name) or o.expect != "pass":
            continue
        if o.kind not in ("contract", "contract-twin", "contract-as-lemma", "lemma", "bundle") or o.cls in ("lattice",):
            continue
        o.prop = PROP
        o.name = o.name.replace("c0", "c07_c0", 1)
        if o.split:
            o.split = o.split.replace("c0", "c07_c0", 1)
        keep.append(o)
    paths = set(o.contract for o in keep if o.contract) | set(p for o in keep for p in o.stub_verified)
    cs = [c for c in cs if c.woven and (c.path in paths or re.search(r"glam::(Vec3A|Vec4|Quat|Mat2|Mat3A|Mat4)\b", c.path))]
    return cs, keep, "\n".join(extra)


def norm(txt):
    return txt.replace("BVec4A", "BVec4").replace(" ", "")


def run(s):
    texts = {}
    for cfg in ("sse2", "scalar", "fma"):
        cs, obs, extra = collect(cfg, "thorough")
        texts[cfg] = {c.path: norm("|".join(c.requires) + "=>" + "|".join(c.ensures)) for c in cs}
    diffs = []
    for p in sorted(set(texts["sse2"]) | set(texts["scalar"]) | set(texts["fma"])):
        vals = set(texts[c].get(p) for c in texts)
        if len(vals) != 1:
            diffs.append(p)
    if diffs:
        s.undecided.append({"ob": "contract-text-identity", "config": "*", "why": "contract text differs between builds for: %s" % diffs[:10]})
    configs = ("fma",) if s.tier == "quick" else ("sse2", "scalar", "fma")
    for cfg in configs:
        cs, obs, extra = collect(cfg, s.tier)
        s.run_config(cfg, cs, obs, extra_rust=extra)
    digest = hashlib.sha256(repr(sorted(texts["sse2"].items())).encode()).hexdigest()[:16]
    s.assumptions += [
        "A6: rustc/LLVM do not contract or re-associate float operations without fast-math flags; the code is compiled by Kani's nightly front end, not the repository's stable toolchain (same MIR semantics assumed)",
        "core-simd build: not compiled by the verifier (its intrinsics are not supported); NEON / wasm32 not buildable here",
        "Debug/Display character identity is not decided (core::fmt); when values are bit-identical the text is produced by the same std formatting code",
        "`fast-math` is not enabled in any verified configuration",
        "quick tier discharges the fma build here; the sse2 and scalar builds of the same contracts are discharged by the quick checks of C01-C04",
    ]
    return s.finish(level_note="same contract text discharged in the sse2, scalar-math and +fma,+avx2 builds for the six SIMD-backed value types",
                    trusted_base=["Kani 0.68 / CBMC 6.11 / CaDiCaL / cvc5", "model/sse.rs (incl. _mm_fmadd_ps lanes as the shared fused mul_add symbol)"],
                    extra_cov={"contracts_compared": len(texts["sse2"]), "contract_text_differences": diffs, "contract_text_digest": digest},
                    not_decided=["core-simd build", "Debug/Display text identity", "short random compositions (covered by induction over per-operation contracts, not machine-checked)"])
