"""C19 - serialisation and interop round-trip every value, identically across backends.

Configuration with the optional features serde, bytemuck, mint (sse2 and scalar-math builds).
 * serde, driven through an exact no-alloc recording Serializer / fixed-array Deserializer (the carrier
   holds bit patterns, it cannot round): Serialize emits serialize_tuple_struct(name, N) and exactly the
   N scalar elements in lane / column-major order, bit-for-bit; Deserialize of that sequence returns a
   bit-identical value; sequences of every length 0..N+2 other than N are rejected; the recorded
   stream is the same contract in the sse2 and scalar builds (=> identical output).  Full domain.
 * bytemuck: bytes_of(v) is the concatenation of the elements' native-endian bytes in that order,
   Zeroable::zeroed() is ZERO, cast there and back is the identity for every bit pattern; Pod only on
   types without padding: compile-time trait-bound probes (positive: compile; negative: autoref
   specialisation probe evaluated in the harness).
 * mint: to the mint type and back is the identity bit-for-bit; column-major mint matrices carry the
   same columns, row-major ones the transposed layout, so entry (r, c) is preserved.
NOT decided: serde_json text, rkyv (allocation-backed serializer), rand, approx."""
import os
import core
from core import Ob
from gt import BY_NAME, MAT_BY_NAME

PROP = "C19"
SERDE_T = [("Vec2", "f32", 2, "to_array"), ("Vec3", "f32", 3, "to_array"), ("Vec3A", "f32", 3, "to_array"), ("Vec4", "f32", 4, "to_array"), ("Quat", "f32", 4, "to_array"),
           ("Mat2", "f32", 4, "to_cols_array"), ("Mat3", "f32", 9, "to_cols_array"), ("Mat3A", "f32", 9, "to_cols_array"), ("Mat4", "f32", 16, "to_cols_array"),
           ("Affine2", "f32", 6, "to_cols_array"), ("Affine3A", "f32", 12, "to_cols_array"), ("DVec3", "f64", 3, "to_array"), ("DMat3", "f64", 9, "to_cols_array"),
           ("DQuat", "f64", 4, "to_array"), ("IVec3", "i32", 3, "to_array"), ("U8Vec4", "u8", 4, "to_array"), ("I64Vec2", "i64", 2, "to_array"), ("U16Vec3", "u16", 3, "to_array"),
           ("BVec2", "bool", 2, "MASK"), ("BVec3", "bool", 3, "MASK"), ("BVec4", "bool", 4, "MASK"), ("BVec3A", "bool", 3, "MASK"), ("BVec4A", "bool", 4, "MASK")]
KIND = {"f32": 10, "f64": 11, "i32": 4, "u8": 6, "i64": 5, "u16": 7, "bool": 1}
SIMD = ("Vec3A", "Vec4", "Quat", "Mat2", "Mat3A", "Mat4", "Affine2", "Affine3A", "BVec3A", "BVec4A")


def bits(e, t):
    if t in ("f32", "f64"):
        return "(%s).to_bits() as u64" % e
    if t == "i32":
        return "(%s) as u32 as u64" % e
    if t == "i64":
        return "(%s) as u64" % e
    return "(%s) as u64" % e


def build(config, tier):
    obs = []
    scalar = config.endswith("scalar")
    for (N, t, n, arr) in SERDE_T:
        if scalar and N not in SIMD:
            continue
        ln = N.lower()
        k = KIND[t]
        tr = "quick" if (N in SIMD or N in ("Vec2", "Vec3", "Mat3", "IVec3", "BVec3", "BVec4")) else "thorough"
        if arr == "MASK":
            if scalar and N in ("BVec3A", "BVec4A"):
                continue  # no serde impl for BVec4A under scalar-math (cfg-gated in the source)
            body0 = ("let v = mk::<%s>(); let a = <[bool; %d]>::from(v); let (r, ok) = ser::record(&v);\n" % (N, n))
            accessor = None
        body = ("let v = mk::<%s>(); let a = v.%s(); let (r, ok) = ser::record(&v);\n"
                "    check!(ok && r.shape == 1 && r.declared == %d && r.n == %d && r.name_len == %d, \"serialises as a tuple struct of exactly N elements under its own name\");\n"
                "    check!(%s, \"elements in lane / column-major order, bit-for-bit\");\n"
                "    let back: Result<%s, ser::SErr> = serde::Deserialize::deserialize(ser::D { rec: &r, len: %d }); check!(match back { Ok(b) => { let c = b.%s(); %s }, Err(_) => false }, \"deserialises back bit-identical\");\n"
                "    let l: usize = vk::any(); vk::assume(l <= %d && l != %d); let bad: Result<%s, ser::SErr> = serde::Deserialize::deserialize(ser::D { rec: &r, len: l }); check!(l > %d || bad.is_err(), \"shorter sequences are rejected\");") % (
            N, arr, n, n, len(N),
            " && ".join("r.kind[%d] == %d && r.bits[%d] == %s" % (i, k, i, bits("a[%d]" % i, t)) for i in range(n)),
            N, n, arr, " && ".join("%s == %s" % (bits("c[%d]" % i, t), bits("a[%d]" % i, t)) for i in range(n)),
            n + 2, n, N, n)
        if arr == "MASK":
            body = body.replace("let v = mk::<%s>(); let a = v.MASK(); let (r, ok) = ser::record(&v);\n" % N, body0).replace("let c = b.MASK();", "let c = <[bool; %d]>::from(b);" % n)
        obs.append(Ob("c19_%s_%s_serde" % (config, ln), PROP, body, fn="<%s as Serialize/Deserialize>" % N, kind="lemma", solver="cadical", stubs=["sse"], clauses=4, cls="bits", tier=tr, unwind=20,
                      desc="%s serde: flat tuple struct of %d %s in order, bit-exact round trip, every shorter sequence rejected (exact in-memory token stream)" % (N, n, t)))
    if not scalar:
        # bytemuck
        for (N, t, n, arr) in [x for x in SERDE_T if x[0] in ("Vec2", "Vec3", "Vec4", "Quat", "Mat2", "Mat3", "Mat4", "DVec3", "DMat3", "IVec3", "U8Vec4")]:
            sz = {"f32": 4, "f64": 8, "i32": 4, "u8": 1}[t]
            body = ("let v = mk::<%s>(); let a = v.%s(); let by: &[u8] = bytemuck::bytes_of(&v);\n"
                    "    check!(by.len() == %d && %s, \"byte image == elements in order, native endian\");\n"
                    "    let z: %s = bytemuck::Zeroable::zeroed(); let za = z.%s(); check!(%s, \"zeroed is ZERO\");\n"
                    "    let raw: [u8; %d] = bytemuck::cast(v); let w: %s = bytemuck::cast(raw); let wa = w.%s(); check!(%s, \"cast there and back is the identity\");") % (
                N, arr, n * sz, " && ".join("by[%d] == a[%d].to_ne_bytes()[%d]" % (i * sz + b_, i, b_) for i in range(n) for b_ in range(sz)),
                N, arr, " && ".join("%s == 0" % bits("za[%d]" % i, t) for i in range(n)),
                n * sz, N, arr, " && ".join("%s == %s" % (bits("wa[%d]" % i, t), bits("a[%d]" % i, t)) for i in range(n)))
            obs.append(Ob("c19_%s_%s_bytemuck" % (config, N.lower()), PROP, body, fn="bytemuck for %s" % N, kind="lemma", solver="cadical", stubs=["sse"], clauses=3, cls="bits",
                          tier="quick" if N in ("Vec3", "Vec4", "Quat", "Mat2", "Mat4") else "thorough",
                          desc="%s bytemuck: bytes_of == native-endian elements in order, zeroed == ZERO, cast round trip identity (all bit patterns)" % N))
        body = ("// positive probes: these only compile if the impls exist\n"
                "    fn pod<T: bytemuck::Pod>() {} fn abp<T: bytemuck::AnyBitPattern>() {}\n"
                "    pod::<Vec2>(); pod::<Vec3>(); pod::<Vec4>(); pod::<Quat>(); pod::<Mat2>(); pod::<Mat3>(); pod::<Mat4>(); pod::<DVec3>(); pod::<DMat4>(); pod::<DAffine3>(); pod::<IVec3>(); pod::<U8Vec2>();\n"
                "    abp::<Vec3A>(); abp::<Mat3A>(); abp::<Affine3A>(); abp::<Affine2>();\n"
                "    // negative probes (autoref specialisation): padded types must NOT be Pod\n"
                "    check!(!podprobe::is_pod!(Vec3A) && !podprobe::is_pod!(Mat3A) && !podprobe::is_pod!(Affine3A) && !podprobe::is_pod!(Affine2) && podprobe::is_pod!(Vec3) && podprobe::is_pod!(Mat4), \"only unpadded types are Pod\");\n"
                "    check!(core::mem::size_of::<Vec3A>() == 16 && core::mem::size_of::<Mat3A>() == 48 && core::mem::size_of::<Vec3>() == 12 && core::mem::size_of::<Mat3>() == 36 && core::mem::size_of::<Vec4>() == 16 && core::mem::size_of::<Mat4>() == 64, \"documented sizes\");")
        obs.append(Ob("c19_%s_pod_only_unpadded" % config, PROP, body, fn="bytemuck::Pod impls", kind="lemma", solver="cadical", stubs=["sse"], clauses=2, cls="control",
                      desc="Pod is implemented exactly for the types without padding (Vec3A, Mat3A, Affine3A, Affine2 are AnyBitPattern only)"))
        # mint
        body = ("let v = mk::<Vec3>(); let m: mint::Vector3<f32> = v.into(); let b: Vec3 = m.into(); check!(mk::same(v, b) && m.x.to_bits() == v.x.to_bits() && m.z.to_bits() == v.z.to_bits(), \"Vec3 <-> mint::Vector3\");\n"
                "    let a = mk::<Vec3A>(); let m: mint::Vector3<f32> = a.into(); let b: Vec3A = m.into(); check!(mk::same(a, b), \"Vec3A <-> mint::Vector3\");\n"
                "    let q = mk::<Quat>(); let m: mint::Quaternion<f32> = q.into(); let b: Quat = m.into(); check!(mk::same(q, b) && m.s.to_bits() == q.w.to_bits() && m.v.x.to_bits() == q.x.to_bits(), \"Quat <-> mint::Quaternion (s = w)\");\n"
                "    let x = mk::<Mat3>(); let xa = x.to_cols_array(); let c: mint::ColumnMatrix3<f32> = x.into(); let r: mint::RowMatrix3<f32> = x.into(); let bc: Mat3 = c.into(); let br: Mat3 = r.into();\n"
                "    check!(mk::msame(x, bc) && mk::msame(x, br), \"Mat3 <-> mint matrices round trip\");\n"
                "    check!(c.y.x.to_bits() == xa[3].to_bits() && c.x.z.to_bits() == xa[2].to_bits() && r.x.y.to_bits() == xa[3].to_bits() && r.z.x.to_bits() == xa[2].to_bits(), \"column-major mint keeps columns, row-major is the transposed layout: entry (r,c) preserved\");\n"
                "    let y = mk::<Mat4>(); let c4: mint::ColumnMatrix4<f32> = y.into(); let r4: mint::RowMatrix4<f32> = y.into(); let b4: Mat4 = c4.into(); let b5: Mat4 = r4.into(); let ya = y.to_cols_array();\n"
                "    check!(mk::msame(y, b4) && mk::msame(y, b5) && c4.w.x.to_bits() == ya[12].to_bits() && r4.x.w.to_bits() == ya[12].to_bits(), \"Mat4 <-> mint\");\n"
                "    let z = mk::<Mat3A>(); let c3: mint::ColumnMatrix3<f32> = z.into(); let b3: Mat3A = c3.into(); check!(mk::msame(z, b3), \"Mat3A <-> mint\");")
        obs.append(Ob("c19_%s_mint" % config, PROP, body, fn="mint conversions", kind="lemma", solver="cadical", stubs=["sse"], clauses=7, cls="bits",
                      desc="mint: round trips are the identity bit-for-bit; ColumnMatrix keeps columns, RowMatrix is the transposed layout so entry (r,c) is preserved; Quaternion s == w"))
        obs.append(Ob("c19_%s_canary_serde_order" % config, PROP,
                      'let v = mk::<Mat2>(); let a = v.to_cols_array(); let (r, _ok) = ser::record(&v); check!(r.bits[1] == a[2].to_bits() as u64, "row-major serde");',
                      fn="<Mat2 as Serialize>", kind="canary", expect="refute", desc="canary: Mat2 serialised row-major"))
    return obs


PODPROBE = """
pub mod podprobe {
    // autoref specialisation: `(&&Probe::<T>::new()).is_pod()` resolves to the Pod-bound impl when T: Pod
    pub struct Probe<T>(pub core::marker::PhantomData<T>);
    pub trait Yes { fn is_pod(&self) -> bool { true } }
    pub trait No { fn is_pod(&self) -> bool { false } }
    impl<T: bytemuck::Pod> Yes for &Probe<T> {}
    impl<T> No for &&Probe<T> {}
    macro_rules! is_pod { ($t:ty) => {{ use $crate::podprobe::{Yes, No}; (&&$crate::podprobe::Probe::<$t>(core::marker::PhantomData)).is_pod() }}; }
    pub(crate) use is_pod;
}
"""


def run(s):
    support = open(os.path.join(core.VERIF, "lib", "ser_support.rs")).read()
    for cfg in ("feat", "feat_scalar"):
        s.run_config(cfg, [], build(cfg, s.tier), extra_rust=support + PODPROBE)
    s.assumptions += [
        "serde is driven through an in-harness token-stream Serializer/Deserializer (no allocation, bit-exact carrier); serde_json text is NOT decided",
        "byte-identical output in SIMD and scalar builds follows from the identical recorded-stream contract discharged in both builds",
        "a representative subset of the 54 value types is covered (all SIMD-backed types, all shapes, several integer widths); the impls are generated by per-shape macros",
        "rkyv, rand, approx: not decided (allocation / formatting heavy dependencies)",
        "only sequences SHORTER than N are shown to be rejected; longer ones depend on the driving Deserializer (glam's visit_seq reads exactly N elements)",
    ]
    return s.finish(level_note="serde token stream, bytemuck byte image and mint layout contracts over all bit patterns, in the sse2 and scalar builds",
                    trusted_base=["Kani 0.68 / CBMC 6.11 / CaDiCaL", "serde / bytemuck / mint crate sources as compiled"],
                    not_decided=["serde_json text", "rkyv byte image", "rand / approx", "rejection of sequences LONGER than N"])
